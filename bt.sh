#!/bin/bash
# debugging aid: replay an artefact with a backtrace of every panic.  usage: ./bt.sh replays/C15/<file>.json
cd "$(dirname "$0")"
VERIF_BT=1 ./check --replay "$1" 2>&1 | grep -v "^ *at /root/.rustup\|^ *at /rustc\|std::\|core::\|rust_begin\|__rust" | head -${2:-60}
