//! Delivery engine: every permutation / batching / duplication / ingestion path of a change set.

use crate::obs::{hstr, Obs};
use crate::report::Violation;
use crate::world::{actor, obs_of, opcols};
use automerge::sync::{self, SyncDoc};
use automerge::{Automerge, Change, ChangeHash};
use std::collections::{BTreeMap, BTreeSet};

pub const RECEIVER_ACTOR: u8 = 0x33;

/// all permutations of 0..n in lexicographic order
pub fn permutations(n: usize) -> Vec<Vec<usize>> {
    fn rec(cur: &mut Vec<usize>, used: &mut Vec<bool>, n: usize, out: &mut Vec<Vec<usize>>) {
        if cur.len() == n {
            out.push(cur.clone());
            return;
        }
        for i in 0..n {
            if !used[i] {
                used[i] = true;
                cur.push(i);
                rec(cur, used, n, out);
                cur.pop();
                used[i] = false;
            }
        }
    }
    let mut out = vec![];
    rec(&mut vec![], &mut vec![false; n], n, &mut out);
    out
}

/// run the sync protocol between two documents until both sides have nothing to say
pub fn sync_quiesce(a: &mut Automerge, b: &mut Automerge, max_rounds: usize) -> Result<usize, String> {
    let mut sa = sync::State::new();
    let mut sb = sync::State::new();
    sync_quiesce_with(a, &mut sa, b, &mut sb, max_rounds)
}

pub fn sync_quiesce_with(
    a: &mut Automerge,
    sa: &mut sync::State,
    b: &mut Automerge,
    sb: &mut sync::State,
    max_rounds: usize,
) -> Result<usize, String> {
    for round in 0..max_rounds {
        let ma = a.generate_sync_message(sa);
        let mb = b.generate_sync_message(sb);
        if ma.is_none() && mb.is_none() {
            return Ok(round);
        }
        if let Some(m) = ma {
            let bytes = m.encode();
            let m = sync::Message::decode(&bytes).map_err(|e| format!("message does not decode: {:?}", e))?;
            b.receive_sync_message(sb, m).map_err(|e| format!("receive_sync_message: {:?}", e))?;
        }
        if let Some(m) = mb {
            let bytes = m.encode();
            let m = sync::Message::decode(&bytes).map_err(|e| format!("message does not decode: {:?}", e))?;
            a.receive_sync_message(sa, m).map_err(|e| format!("receive_sync_message: {:?}", e))?;
        }
    }
    Err(format!("sync did not go quiet within {} rounds", max_rounds))
}

pub struct Expect {
    pub obs: Obs,
    pub opcols: Vec<u8>,
}

fn cmp(what: &str, d: &Automerge, e: &Expect) -> Result<(), Violation> {
    let o = obs_of(d);
    if let Some(diff) = o.diff(&e.obs) {
        return Err(Violation::new("delivery-obs", what.to_string(), format!("{}: {}", what, diff)));
    }
    match opcols(d) {
        Ok(c) if c == e.opcols => Ok(()),
        Ok(_) => Err(Violation::new(
            "delivery-opcols",
            what.to_string(),
            format!("{}: same change set and same reads, but op columns differ", what),
        )),
        Err(m) => Err(Violation::new("delivery-opcols", what.to_string(), m)),
    }
}

pub struct DeliveryStats {
    pub deliveries: u64,
    pub perms: u64,
}

/// `base`: document already holding the common history; `new`: the changes to deliver (any order).
/// Every way of ingesting `new` into a fork of `base` must give the same document.
pub fn check_deliveries(base: &Automerge, new: &[Change], max_perm_len: usize) -> Result<DeliveryStats, Violation> {
    let mut stats = DeliveryStats { deliveries: 0, perms: 0 };
    let recv = || base.fork().with_actor(actor(RECEIVER_ACTOR));
    // canonical: causal order (the order get_changes gave) in one batch
    let mut canon = recv();
    canon
        .apply_changes(new.to_vec())
        .map_err(|e| Violation::new("delivery-ok", "canonical apply_changes", format!("{:?}", e)))?;
    let all_hashes: BTreeSet<ChangeHash> = canon.get_changes(&[]).iter().map(|c| c.hash()).collect();
    for c in new {
        if !all_hashes.contains(&c.hash()) {
            return Err(Violation::new(
                "delivery-complete",
                "canonical",
                format!("change {} delivered with all its ancestors but not applied", c.hash()),
            ));
        }
    }
    let e = Expect {
        obs: obs_of(&canon),
        opcols: opcols(&canon).map_err(|m| Violation::new("delivery-opcols", "canonical", m))?,
    };
    let n = new.len();
    if n <= max_perm_len {
        for p in permutations(n) {
            stats.perms += 1;
            let seq: Vec<Change> = p.iter().map(|&i| new[i].clone()).collect();
            let tag = format!("{:?}", p);
            // one at a time
            let mut d = recv();
            for c in seq.iter() {
                d.apply_changes([c.clone()])
                    .map_err(|e| Violation::new("delivery-ok", "one-at-a-time", format!("perm {}: {:?}", tag, e)))?;
            }
            cmp("one-at-a-time", &d, &e).map_err(|v| v.with_case(serde_json::json!({"perm": p})))?;
            // one at a time, first change delivered again at the end
            if n > 0 {
                d.apply_changes([seq[0].clone()])
                    .map_err(|e| Violation::new("delivery-ok", "redelivery", format!("perm {}: {:?}", tag, e)))?;
                cmp("redelivery", &d, &e).map_err(|v| v.with_case(serde_json::json!({"perm": p})))?;
            }
            stats.deliveries += 2;
            // one batch
            let mut d = recv();
            d.apply_changes(seq.clone())
                .map_err(|e| Violation::new("delivery-ok", "batch", format!("perm {}: {:?}", tag, e)))?;
            cmp("batch", &d, &e).map_err(|v| v.with_case(serde_json::json!({"perm": p})))?;
            stats.deliveries += 1;
            // batch with a duplicate inside
            if n > 0 {
                let mut dup = seq.clone();
                dup.push(seq[0].clone());
                let mut d = recv();
                d.apply_changes(dup)
                    .map_err(|e| Violation::new("delivery-ok", "batch-dup", format!("perm {}: {:?}", tag, e)))?;
                cmp("batch-dup", &d, &e).map_err(|v| v.with_case(serde_json::json!({"perm": p})))?;
                stats.deliveries += 1;
            }
            // every 2-block split
            for k in 1..n {
                let mut d = recv();
                d.apply_changes(seq[..k].to_vec())
                    .map_err(|e| Violation::new("delivery-ok", "split", format!("perm {} split {}: {:?}", tag, k, e)))?;
                d.apply_changes(seq[k..].to_vec())
                    .map_err(|e| Violation::new("delivery-ok", "split", format!("perm {} split {}: {:?}", tag, k, e)))?;
                cmp("split", &d, &e).map_err(|v| v.with_case(serde_json::json!({"perm": p, "split": k})))?;
                stats.deliveries += 1;
            }
            // load_incremental of the concatenated raw change chunks
            let mut bytes = vec![];
            for c in seq.iter() {
                bytes.extend_from_slice(c.raw_bytes());
            }
            let mut d = recv();
            d.load_incremental(&bytes)
                .map_err(|e| Violation::new("delivery-ok", "load_incremental", format!("perm {}: {:?}", tag, e)))?;
            cmp("load_incremental", &d, &e).map_err(|v| v.with_case(serde_json::json!({"perm": p})))?;
            // one load_incremental call per change
            let mut d = recv();
            for c in seq.iter() {
                d.load_incremental(c.raw_bytes())
                    .map_err(|e| Violation::new("delivery-ok", "load_incremental-each", format!("perm {}: {:?}", tag, e)))?;
            }
            cmp("load_incremental-each", &d, &e).map_err(|v| v.with_case(serde_json::json!({"perm": p})))?;
            stats.deliveries += 2;
        }
    }
    // ingestion paths that do not depend on an order
    {
        let mut d = recv();
        let mut src = canon.clone();
        d.merge(&mut src)
            .map_err(|e| Violation::new("delivery-ok", "merge", format!("{:?}", e)))?;
        cmp("merge", &d, &e)?;
        let d = Automerge::load(&canon.save()).map_err(|e| Violation::new("delivery-ok", "load(save)", format!("{:?}", e)))?;
        cmp("load(save)", &d, &e)?;
        let d = Automerge::load(&canon.save_nocompress())
            .map_err(|e| Violation::new("delivery-ok", "load(save_nocompress)", format!("{:?}", e)))?;
        cmp("load(save_nocompress)", &d, &e)?;
        let mut d = Automerge::new_with_encoding(base.text_encoding());
        d.load_incremental(&canon.save())
            .map_err(|e| Violation::new("delivery-ok", "load_incremental(save) into empty", format!("{:?}", e)))?;
        cmp("load_incremental(save)", &d, &e)?;
        let mut d = recv();
        d.load_incremental(&canon.save())
            .map_err(|e| Violation::new("delivery-ok", "load_incremental(save) into base", format!("{:?}", e)))?;
        cmp("load_incremental(save)-into-base", &d, &e)?;
        // save_after(base heads) = the new changes as change chunks
        let mut d = recv();
        d.load_incremental(&canon.save_after(&base.get_heads()))
            .map_err(|e| Violation::new("delivery-ok", "load_incremental(save_after)", format!("{:?}", e)))?;
        cmp("load_incremental(save_after)", &d, &e)?;
        // bundle
        if !new.is_empty() {
            match canon.bundle(new.iter().map(|c| c.hash())) {
                Ok(b) => {
                    let mut d = recv();
                    d.load_incremental(b.bytes())
                        .map_err(|e| Violation::new("delivery-ok", "load_incremental(bundle)", format!("{:?}", e)))?;
                    cmp("load_incremental(bundle)", &d, &e)?;
                }
                Err(er) => return Err(Violation::new("delivery-ok", "bundle", format!("{:?}", er))),
            }
        }
        // sync
        let mut d = recv();
        let mut src = canon.clone();
        sync_quiesce(&mut d, &mut src, 12).map_err(|m| Violation::new("delivery-ok", "sync", m))?;
        cmp("sync", &d, &e)?;
        cmp("sync-source-unchanged", &src, &e)?;
        stats.deliveries += 8;
    }
    Ok(stats)
}

/// key of a change set for deduplication
pub fn set_key(base_name: &str, new: &[Change]) -> String {
    let mut h: Vec<ChangeHash> = new.iter().map(|c| c.hash()).collect();
    h.sort();
    format!("{}:{}", base_name, hstr(&h).join(","))
}

/// the changes of `doc` that `base` does not have, in the causal order get_changes returns
pub fn new_changes(base_hashes: &BTreeSet<ChangeHash>, docs: &[Automerge]) -> Vec<Change> {
    let mut seen = BTreeSet::new();
    let mut out: Vec<Change> = vec![];
    let mut by_hash: BTreeMap<ChangeHash, Change> = BTreeMap::new();
    for d in docs {
        for c in d.get_changes(&[]) {
            if !base_hashes.contains(&c.hash()) {
                by_hash.entry(c.hash()).or_insert(c);
            }
        }
    }
    // topological order (deps first), ties by hash for determinism
    let mut pending: Vec<ChangeHash> = by_hash.keys().cloned().collect();
    while !pending.is_empty() {
        let mut progressed = false;
        let mut rest = vec![];
        for h in pending {
            let c = &by_hash[&h];
            if c.deps().iter().all(|d| base_hashes.contains(d) || seen.contains(d) || !by_hash.contains_key(d)) {
                seen.insert(h);
                out.push(c.clone());
                progressed = true;
            } else {
                rest.push(h);
            }
        }
        pending = rest;
        if !progressed {
            break;
        }
    }
    out
}
