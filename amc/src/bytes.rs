//! Untrusted-input engine: exhaustive families of byte strings per decoder, executed in worker
//! subprocesses (address-space limit, journal of the case in flight, counting allocator).
//!
//! Families (all finite and enumerated completely):
//!  (a) every byte string of length <= k; for chunked formats additionally MAGIC + every string
//!      <= k and, per chunk type, a valid header (length + checksum fixed up) + every body <= k;
//!  (b) every single-site mutation of every corpus encoding: byte overwrite, truncation, deletion,
//!      insertion, adjacent transposition; chunk length and checksum are recomputed by the harness
//!      when the mutation is inside a chunk body so that it reaches the column decoders;
//!  (c) every LEB128 field (whatever parses as a LEB at an offset) replaced by each extreme value.

use crate::chunks::{rebuild_chunk, split_chunks, MAGIC};
use crate::report::{Report, Violation};
use crate::util::{guard, read_uleb, uleb};
use crate::world::{actor, base};
use automerge::sync::{self, SyncDoc};
use automerge::transaction::Transactable;
use automerge::{ActorId, Automerge, Change, ChangeHash, Cursor, LoadOptions, ObjId, ObjType, OnPartialLoad, ReadDoc, StringMigration, TextEncoding, VerificationMode, ROOT};
use serde_json::json;
use std::io::Write;
use std::str::FromStr;
use std::time::{Duration, Instant};

pub const EXTREMES: [u64; 13] = [0, 1, 0x7f, 0x80, 1 << 14, 1 << 28, (1 << 31) - 1, (1 << 32) - 1, 1 << 32, 1 << 53, (1 << 63) - 1, 1 << 63, u64::MAX];

#[derive(Clone, Copy, Debug, PartialEq, Eq, Hash, PartialOrd, Ord)]
pub enum Target {
    Load,
    LoadIgnore,
    LoadDontCheck,
    LoadMigrate,
    LoadIncEmpty,
    LoadIncDoc,
    LoadUnverifiedHeads,
    Rescue,
    ChangeFromBytes,
    Bundle,
    SyncMessage,
    SyncState,
    Bloom,
    CursorBytes,
    CursorStr,
    ObjIdBytes,
    ActorIdStr,
    ActorIdBytes,
    ChangeHashStr,
    ChangeHashBytes,
    ImportObj,
}

pub const ALL_TARGETS: &[Target] = &[
    Target::Load,
    Target::LoadIgnore,
    Target::LoadDontCheck,
    Target::LoadMigrate,
    Target::LoadIncEmpty,
    Target::LoadIncDoc,
    Target::LoadUnverifiedHeads,
    Target::Rescue,
    Target::ChangeFromBytes,
    Target::Bundle,
    Target::SyncMessage,
    Target::SyncState,
    Target::Bloom,
    Target::CursorBytes,
    Target::CursorStr,
    Target::ObjIdBytes,
    Target::ActorIdStr,
    Target::ActorIdBytes,
    Target::ChangeHashStr,
    Target::ChangeHashBytes,
    Target::ImportObj,
];

impl Target {
    pub fn chunked(&self) -> bool {
        matches!(
            self,
            Target::Load | Target::LoadIgnore | Target::LoadDontCheck | Target::LoadMigrate | Target::LoadIncEmpty | Target::LoadIncDoc | Target::LoadUnverifiedHeads | Target::Rescue | Target::ChangeFromBytes | Target::Bundle
        )
    }
    pub fn textual(&self) -> bool {
        matches!(self, Target::CursorStr | Target::ActorIdStr | Target::ChangeHashStr | Target::ImportObj)
    }
}

#[derive(Clone, Debug, PartialEq, Eq)]
pub enum Kind {
    Doc,
    Change,
    Bundle,
    Message,
    State,
    Bloom,
    CursorBytes,
    CursorStr,
    ObjIdBytes,
    Text,
}

pub struct CorpusItem {
    pub name: String,
    pub kind: Kind,
    pub bytes: Vec<u8>,
}

pub struct Ctx {
    pub doc: Automerge,
    pub doc_bytes: Vec<u8>,
    pub text: ObjId,
    pub list: ObjId,
    pub hashes: Vec<ChangeHash>,
    pub corpus: Vec<CorpusItem>,
}

fn sync_messages(a: &Automerge, b: &Automerge) -> Vec<Vec<u8>> {
    let (mut a, mut b) = (a.clone(), b.clone());
    let (mut sa, mut sb) = (sync::State::new(), sync::State::new());
    let mut out = vec![];
    for _ in 0..8 {
        let ma = a.generate_sync_message(&mut sa);
        let mb = b.generate_sync_message(&mut sb);
        if ma.is_none() && mb.is_none() {
            break;
        }
        if let Some(m) = ma {
            out.push(m.clone().encode());
            let _ = b.receive_sync_message(&mut sb, m);
        }
        if let Some(m) = mb {
            out.push(m.clone().encode());
            let _ = a.receive_sync_message(&mut sa, m);
        }
    }
    out
}

pub fn build_ctx(thorough: bool) -> Ctx {
    let enc = TextEncoding::UnicodeCodePoint;
    let b1 = base("B1", enc);
    let b2 = base("B2", enc);
    let b3 = base("B3", enc);
    let doc = b2.fork().with_actor(actor(0x10));
    let text = crate::alphabet::resolve(&doc, crate::alphabet::Role::T).unwrap().0;
    let list = crate::alphabet::resolve(&doc, crate::alphabet::Role::L).unwrap().0;
    let mut corpus = vec![];
    let mut push = |name: &str, kind: Kind, bytes: Vec<u8>| corpus.push(CorpusItem { name: name.to_string(), kind, bytes });
    push("B1.save", Kind::Doc, b1.save());
    push("B2.save", Kind::Doc, b2.save());
    push("B2.save_nocompress", Kind::Doc, b2.save_nocompress());
    // save + incremental changes
    {
        let mut w = b1.fork().with_actor(actor(0x10));
        let mut file = w.save();
        for i in 0..2 {
            let h = w.get_heads();
            let mut tx = w.transaction();
            tx.put(ROOT, "k", i).unwrap();
            tx.splice_text(&crate::alphabet::resolve(&tx, crate::alphabet::Role::T).unwrap().0, 0, 0, "é").unwrap();
            tx.commit();
            file.extend_from_slice(&w.save_after(&h));
        }
        push("B1.save+2inc", Kind::Doc, file);
    }
    // a document with a queued orphan
    {
        let mut src = b1.fork().with_actor(actor(0x90));
        for i in 0..2 {
            let mut tx = src.transaction();
            tx.put(ROOT, "o", i).unwrap();
            tx.commit();
        }
        let last = src.get_last_local_change().unwrap();
        let mut d = b1.fork().with_actor(actor(0x10));
        d.apply_changes([last]).unwrap();
        push("B1+orphan.save", Kind::Doc, d.save());
    }
    if thorough {
        push("B3.save(deflate)", Kind::Doc, b3.save());
    }
    for (i, c) in b2.get_changes(&[]).into_iter().enumerate() {
        if i < 3 || thorough {
            push(&format!("B2.change{}", i), Kind::Change, c.raw_bytes().to_vec());
        }
    }
    {
        let mut c = b3.get_changes(&[]).pop().unwrap();
        let comp = c.bytes().to_vec();
        push("B3.change(deflate)", Kind::Change, comp);
    }
    if let Ok(bu) = b2.bundle(b2.get_changes(&[]).iter().map(|c| c.hash())) {
        push("B2.bundle", Kind::Bundle, bu.bytes().to_vec());
    }
    for (i, m) in sync_messages(&b2, &b1).into_iter().enumerate() {
        push(&format!("sync.msg{}", i), Kind::Message, m);
    }
    for (i, m) in sync_messages(&b2, &Automerge::new()).into_iter().enumerate().take(3) {
        push(&format!("sync-from-empty.msg{}", i), Kind::Message, m);
    }
    {
        let mut st = sync::State::new();
        st.shared_heads = b2.get_heads();
        push("sync.state", Kind::State, st.encode());
    }
    let hashes: Vec<ChangeHash> = b2.get_changes(&[]).iter().map(|c| c.hash()).collect();
    push("bloom(B2)", Kind::Bloom, sync::BloomFilter::from_hashes(hashes.iter()).to_bytes());
    push("bloom(1)", Kind::Bloom, sync::BloomFilter::from_hashes(hashes.iter().take(1)).to_bytes());
    for mv in [automerge::MoveCursor::After, automerge::MoveCursor::Before] {
        let c = doc.get_cursor_moving(&text, 1, None, mv).unwrap();
        push("cursor.bytes", Kind::CursorBytes, c.to_bytes());
        push("cursor.str", Kind::CursorStr, c.to_string().into_bytes());
    }
    push("objid.bytes", Kind::ObjIdBytes, text.to_bytes());
    push("objid.str", Kind::Text, text.to_string().into_bytes());
    push("actor.hex", Kind::Text, doc.get_actor().to_hex_string().into_bytes());
    push("hash.hex", Kind::Text, hashes[0].to_string().into_bytes());
    // the repository's own fixtures and crashers
    for dir in ["/repo/rust/automerge/tests/fixtures", "/repo/rust/automerge/tests/fuzz-crashers"] {
        if let Ok(rd) = std::fs::read_dir(dir) {
            let mut files: Vec<_> = rd.filter_map(|e| e.ok()).map(|e| e.path()).collect();
            files.sort();
            for p in files {
                if let Ok(b) = std::fs::read(&p) {
                    if b.len() <= 4096 && !b.is_empty() {
                        push(&format!("repo:{}", p.file_name().unwrap().to_string_lossy()), Kind::Doc, b);
                    }
                }
            }
        }
    }
    let doc_bytes = doc.save();
    Ctx { doc, doc_bytes, text, list, hashes, corpus }
}

fn kinds_for(t: Target) -> &'static [Kind] {
    match t {
        Target::Load | Target::LoadIgnore | Target::LoadDontCheck | Target::LoadMigrate | Target::LoadIncEmpty | Target::LoadIncDoc | Target::LoadUnverifiedHeads | Target::Rescue => &[Kind::Doc, Kind::Change, Kind::Bundle],
        Target::ChangeFromBytes => &[Kind::Change],
        Target::Bundle => &[Kind::Bundle],
        Target::SyncMessage => &[Kind::Message],
        Target::SyncState => &[Kind::State],
        Target::Bloom => &[Kind::Bloom],
        Target::CursorBytes => &[Kind::CursorBytes],
        Target::CursorStr => &[Kind::CursorStr],
        Target::ObjIdBytes => &[Kind::ObjIdBytes],
        Target::ActorIdStr | Target::ChangeHashStr | Target::ImportObj => &[Kind::Text],
        Target::ActorIdBytes | Target::ChangeHashBytes => &[],
    }
}

/// all byte strings of length <= k in length-then-lexicographic order
pub fn short_strings(k: usize, f: &mut dyn FnMut(&[u8])) {
    f(&[]);
    let mut buf = vec![];
    for len in 1..=k {
        buf.clear();
        buf.resize(len, 0u8);
        loop {
            f(&buf);
            let mut i = len;
            loop {
                if i == 0 {
                    break;
                }
                i -= 1;
                if buf[i] < 255 {
                    buf[i] += 1;
                    break;
                }
                buf[i] = 0;
                if i == 0 {
                    i = usize::MAX;
                    break;
                }
            }
            if i == usize::MAX {
                break;
            }
            if buf.iter().all(|&b| b == 0) {
                break;
            }
        }
    }
}

const TEXT_ALPHABET: [&str; 11] = ["", "s", "e", "-", "@", "0", "1", "g", "é", "😀", "_root"];

fn text_strings(max: usize, f: &mut dyn FnMut(&[u8])) {
    fn rec(cur: &mut String, depth: usize, max: usize, f: &mut dyn FnMut(&[u8])) {
        f(cur.as_bytes());
        if depth == max {
            return;
        }
        for a in TEXT_ALPHABET.iter().skip(1) {
            let n = cur.len();
            cur.push_str(a);
            rec(cur, depth + 1, max, f);
            cur.truncate(n);
        }
    }
    rec(&mut String::new(), 0, max, f);
}

/// apply a mutation to an item; bytes inside a chunk body get their chunk rebuilt
fn with_fixup(item: &[u8], mutate: impl Fn(&mut Vec<u8>), at: usize) -> Vec<u8> {
    let (chunks, _) = split_chunks(item);
    for c in chunks.iter() {
        if at >= c.body_start && at < c.end.max(c.body_start + 1) && at <= c.end {
            let mut body = item[c.body_start..c.end].to_vec();
            let rel = at - c.body_start;
            let _ = rel;
            // mutate on a copy of the whole item to keep offsets simple, then cut the body back out
            let mut whole = item.to_vec();
            let before = whole.len();
            mutate(&mut whole);
            let delta = whole.len() as isize - before as isize;
            let new_end = (c.end as isize + delta) as usize;
            if new_end >= c.body_start && new_end <= whole.len() {
                body = whole[c.body_start..new_end].to_vec();
                let mut out = item[..c.start].to_vec();
                out.extend_from_slice(&rebuild_chunk(c.typ, &body));
                out.extend_from_slice(&whole[new_end..]);
                return out;
            }
        }
    }
    let mut whole = item.to_vec();
    mutate(&mut whole);
    whole
}

pub struct Spec {
    pub targets: Vec<Target>,
    pub k: usize,
    pub text_depth: usize,
    /// byte values used for overwrites (None = all 255 others)
    pub overwrite_values: Option<Vec<u8>>,
    pub leb_extremes: bool,
    pub mutations: bool,
    pub short: bool,
    /// overwrite 2-3 bytes at every offset with the classic invalid UTF-8 sequences
    pub invalid_utf8_seqs: bool,
}

/// Enumerate every case of the spec in a fixed order.
pub fn enumerate(spec: &Spec, ctx: &Ctx, f: &mut dyn FnMut(u64, Target, &[u8])) {
    let mut idx = 0u64;
    for &t in spec.targets.iter() {
        let mut emit = |b: &[u8]| {
            f(idx, t, b);
            idx += 1;
        };
        if spec.short {
            if t.textual() {
                text_strings(spec.text_depth, &mut emit);
                short_strings(spec.k.min(2), &mut emit);
            } else {
                short_strings(spec.k, &mut emit);
            }
            if t.chunked() {
                let kk = spec.k.min(2);
                short_strings(kk, &mut |s| {
                    let mut v = MAGIC.to_vec();
                    v.extend_from_slice(s);
                    emit(&v);
                });
                for typ in 0u8..=4 {
                    short_strings(kk, &mut |s| {
                        emit(&crate::chunks::build_chunk(typ, s));
                    });
                }
            }
        }
        for item in ctx.corpus.iter().filter(|i| kinds_for(t).contains(&i.kind)) {
            let b = &item.bytes;
            emit(b);
            if spec.mutations {
                for at in 0..b.len() {
                    let vals: Vec<u8> = match &spec.overwrite_values {
                        Some(v) => {
                            let mut v = v.clone();
                            v.push(b[at] ^ 1);
                            v.push(b[at] ^ 0x80);
                            v.push(b[at].wrapping_add(1));
                            v.push(b[at].wrapping_sub(1));
                            v.sort();
                            v.dedup();
                            v
                        }
                        None => (0..=255u8).collect(),
                    };
                    for v in vals {
                        if v != b[at] {
                            emit(&with_fixup(b, |w| w[at] = v, at));
                        }
                    }
                    // deletion, insertion, transposition, truncation
                    emit(&with_fixup(b, |w| {
                        w.remove(at);
                    }, at));
                    for ins in [0x00u8, 0x7f, 0x80, 0xff] {
                        emit(&with_fixup(b, |w| w.insert(at, ins), at));
                    }
                    if at + 1 < b.len() {
                        emit(&with_fixup(b, |w| w.swap(at, at + 1), at));
                    }
                    emit(&b[..at]);
                }
            }
            if spec.invalid_utf8_seqs {
                const SEQS: [&[u8]; 6] = [&[0xC0, 0x80], &[0xED, 0xA0, 0x80], &[0xF5, 0x80, 0x80], &[0xE0, 0x80], &[0xF8, 0x88], &[0xC1, 0xBF]];
                for at in 0..b.len() {
                    for sq in SEQS {
                        if at + sq.len() <= b.len() {
                            emit(&with_fixup(b, |w| w[at..at + sq.len()].copy_from_slice(sq), at));
                        }
                    }
                }
            }
            // sync messages nest change chunks: mutate inside them with the inner checksum fixed
            if item.kind == Kind::Message && (spec.mutations || spec.invalid_utf8_seqs) {
                if let Ok(m) = sync::Message::decode(b) {
                    let chunks: Vec<Vec<u8>> = m.changes.iter().map(|c| c.to_vec()).collect();
                    for (ci, ch) in chunks.iter().enumerate() {
                        for at in 0..ch.len() {
                            let vals: Vec<u8> = match &spec.overwrite_values {
                                Some(v) => v.clone(),
                                None => vec![0x00, 0x7f, 0x80, 0xff, ch[at] ^ 1],
                            };
                            for v in vals {
                                if v == ch[at] {
                                    continue;
                                }
                                let fixed = with_fixup(ch, |w| w[at] = v, at);
                                let mut all = chunks.clone();
                                all[ci] = fixed;
                                let mut m2 = m.clone();
                                m2.changes = sync::ChunkList::from(all);
                                emit(&m2.encode());
                            }
                        }
                    }
                }
            }
            if spec.leb_extremes {
                for at in 0..b.len() {
                    if let Some((_, n)) = read_uleb(b, at) {
                        for x in EXTREMES {
                            let mut enc = vec![];
                            uleb(x, &mut enc);
                            emit(&with_fixup(
                                b,
                                |w| {
                                    w.splice(at..at + n, enc.iter().cloned());
                                },
                                at,
                            ));
                        }
                    }
                }
            }
        }
    }
}

#[derive(Default)]
pub struct CaseOut {
    pub accepted: bool,
    /// (oracle, site, detail)
    pub violations: Vec<(String, String, String)>,
}

pub struct Oracles {
    /// thorough tier: the heavier variant of the batteries
    pub deep: bool,
    /// a panic while decoding / processing the input is a violation (C15, C23)
    pub panics: bool,
    pub consistent: bool,
    pub alloc: bool,
    pub utf8: bool,
}

fn valid_utf8_strings(d: &Automerge, out: &mut CaseOut) {
    // every string the document hands out is re-validated from its bytes
    let mut check = |what: &str, s: &str| {
        if std::str::from_utf8(s.as_bytes()).is_err() {
            out.violations.push(("strings-valid-utf8".into(), what.to_string(), format!("{} returned a String that is not valid UTF-8: {:?}", what, s.as_bytes())));
        }
    };
    for (obj, ty) in crate::obs::reachable(d, None) {
        match ty {
            ObjType::Map | ObjType::Table => {
                for k in d.keys(&obj) {
                    check("keys", &k);
                    if let Ok(all) = d.get_all(&obj, k.as_str()) {
                        for (v, _) in all {
                            if let automerge::Value::Scalar(s) = v {
                                if let automerge::ScalarValue::Str(s) = s.as_ref() {
                                    check("map value", s);
                                }
                            }
                        }
                    }
                }
            }
            ObjType::List => {
                for i in 0..d.length(&obj) {
                    if let Ok(all) = d.get_all(&obj, i) {
                        for (v, _) in all {
                            if let automerge::Value::Scalar(s) = v {
                                if let automerge::ScalarValue::Str(s) = s.as_ref() {
                                    check("list value", s);
                                }
                            }
                        }
                    }
                }
            }
            ObjType::Text => {
                if let Ok(t) = d.text(&obj) {
                    check("text", &t);
                }
                if let Ok(ms) = d.marks(&obj) {
                    for m in ms {
                        check("mark name", m.name());
                        if let automerge::ScalarValue::Str(s) = m.value() {
                            check("mark value", s);
                        }
                    }
                }
                if let Ok(sp) = d.spans(&obj) {
                    for s in sp {
                        if let automerge::iter::Span::Text { text, .. } = s {
                            check("span text", &text);
                        }
                    }
                }
            }
        }
    }
    for c in d.get_changes(&[]) {
        if let Some(m) = c.message() {
            check("change message", m);
        }
        for op in c.decode().operations {
            if let automerge::legacy::Key::Map(k) = &op.key {
                check("decoded op key", k);
            }
        }
    }
}

/// C16: a document that load accepted behaves like a valid one
pub fn consistent(d: &Automerge, out: &mut CaseOut, deep: bool) {
    let r = guard(|| -> Result<(), String> {
        let heads = d.get_heads();
        let _ = crate::obs::observe(d, None, &heads);
        let _ = crate::obs::extras(d, None);
        let changes = d.get_changes(&[]);
        // historical reads at a few heads of the loaded graph
        let g = crate::graph::Graph::new(changes.clone());
        for h in g.all_head_sets(if deep { 5 } else { 2 }) {
            let _ = crate::obs::observe(d, Some(&h), &heads);
            let _ = crate::obs::extras(d, Some(&h));
            if !h.is_empty() {
                let f = d.fork_at(&h).map_err(|e| format!("fork_at of a head set of the loaded graph failed: {:?}", e))?;
                let _ = f.get_heads();
            }
        }
        // the harness's own actors must not collide with an actor id that a mutation produced
        let used: std::collections::BTreeSet<Vec<u8>> = changes.iter().map(|c| c.actor_id().to_bytes().to_vec()).collect();
        let mut free = (0x21u8..0x60).filter(|b| !used.contains(&actor(*b).to_bytes().to_vec()));
        let (edit_actor, other_actor) = (free.next().unwrap_or(0x21), free.next().unwrap_or(0x22));
        // one edit of each theme
        for th in crate::alphabet::THEMES.iter().take(if deep { 99 } else { 3 }) {
            let mut x = d.clone().with_actor(actor(edit_actor));
            for op in crate::alphabet::theme(th) {
                if let crate::world::EditResult::Done = crate::world::edit_commit(&mut x, op) {
                    break;
                }
            }
            let _ = crate::obs::observe(&x, None, &[]);
        }
        // merge with a pristine replica in both directions
        let mut other = Automerge::new().with_actor(actor(other_actor));
        {
            let mut tx = other.transaction();
            tx.put(ROOT, "other", 1).map_err(|e| format!("{:?}", e))?;
            tx.commit();
        }
        let mut a = d.clone();
        a.merge(&mut other.clone()).map_err(|e| format!("merge into loaded doc failed: {:?}", e))?;
        let mut b = other.clone();
        b.merge(&mut d.clone()).map_err(|e| format!("merge of loaded doc into a pristine one failed: {:?}", e))?;
        // save / load identity
        let saved = d.save();
        let l = Automerge::load(&saved).map_err(|e| format!("save() of the loaded document does not load: {:?}", e))?;
        let (o1, o2) = (crate::obs::observe(d, None, &heads), crate::obs::observe(&l, None, &l.get_heads()));
        if let Some(diff) = o1.diff(&o2) {
            return Err(format!("load(save(doc)) differs from doc: {}", diff));
        }
        if l.save() != saved {
            return Err("save(load(save(doc))) != save(doc)".into());
        }
        Ok(())
    });
    match r {
        Err(p) => out.violations.push(("accepted-doc-consistent".into(), format!("panic@{}", p.location), p.message)),
        Ok(Err(e)) => out.violations.push(("accepted-doc-consistent".into(), e.split(':').next().unwrap_or("?").chars().take(60).collect(), e)),
        Ok(Ok(())) => {}
    }
}

fn thread_cpu_time() -> Duration {
    let mut ts = libc::timespec { tv_sec: 0, tv_nsec: 0 };
    unsafe { libc::clock_gettime(libc::CLOCK_THREAD_CPUTIME_ID, &mut ts) };
    Duration::new(ts.tv_sec as u64, ts.tv_nsec as u32)
}

pub fn exec(t: Target, data: &[u8], ctx: &Ctx, or: &Oracles) -> CaseOut {
    let mut out = CaseOut::default();
    let n = data.len();
    let base_live = crate::alloc_count::begin();
    let t0 = thread_cpu_time();
    let r = guard(|| -> bool {
        match t {
            Target::Load | Target::LoadIgnore | Target::LoadDontCheck | Target::LoadMigrate | Target::LoadUnverifiedHeads => {
                let r = match t {
                    Target::Load => Automerge::load(data),
                    Target::LoadIgnore => Automerge::load_with_options(data, LoadOptions::new().on_partial_load(OnPartialLoad::Ignore)),
                    Target::LoadDontCheck => Automerge::load_with_options(data, LoadOptions::new().verification_mode(VerificationMode::DontCheck)),
                    Target::LoadMigrate => Automerge::load_with_options(data, LoadOptions::new().migrate_strings(StringMigration::ConvertToText)),
                    _ => Automerge::load_unverified_heads(data),
                };
                match r {
                    Ok(d) => {
                        // touching the result is part of "processing": heads, hydrate
                        let _ = d.get_heads();
                        let _ = d.hydrate(None);
                        true
                    }
                    Err(_) => false,
                }
            }
            Target::LoadIncEmpty => {
                let mut d = Automerge::new();
                d.load_incremental(data).is_ok()
            }
            Target::LoadIncDoc => {
                let mut d = ctx.doc.clone();
                let ok = d.load_incremental(data).is_ok();
                let _ = d.hydrate(None);
                // "accepted" = something was taken in (applied or queued); load_incremental also
                // returns Ok for input it ignores entirely
                ok && (d.get_heads() != ctx.doc.get_heads() || d.get_missing_deps(&[]) != ctx.doc.get_missing_deps(&[]))
            }
            Target::Rescue => Automerge::rescue(data).is_ok(),
            Target::ChangeFromBytes => match Change::from_bytes(data.to_vec()) {
                Ok(c) => {
                    let _ = c.decode();
                    let mut d = ctx.doc.clone();
                    let _ = d.apply_changes([c]);
                    let _ = d.hydrate(None);
                    let _ = d.get_missing_deps(&[]);
                    true
                }
                Err(_) => false,
            },
            Target::Bundle => match automerge::Bundle::try_from(data) {
                Ok(b) => {
                    let _ = b.to_changes();
                    let _ = b.iter_changes().count();
                    true
                }
                Err(_) => false,
            },
            Target::SyncMessage => match sync::Message::decode(data) {
                Ok(m) => {
                    let mut d = ctx.doc.clone();
                    let mut st = sync::State::new();
                    let _ = d.receive_sync_message(&mut st, m.clone());
                    let _ = d.generate_sync_message(&mut st);
                    // and as the answer to a message of ours
                    let mut d2 = ctx.doc.clone();
                    let mut st2 = sync::State::new();
                    let _ = d2.generate_sync_message(&mut st2);
                    let _ = d2.receive_sync_message(&mut st2, m);
                    let _ = d2.generate_sync_message(&mut st2);
                    true
                }
                Err(_) => false,
            },
            Target::SyncState => sync::State::decode(data).is_ok(),
            Target::Bloom => match sync::BloomFilter::try_from(data) {
                Ok(f) => {
                    for h in ctx.hashes.iter().take(12) {
                        let _ = f.contains_hash(h);
                    }
                    for b in [0x00u8, 0xff, 0x80, 0x01] {
                        let _ = f.contains_hash(&ChangeHash([b; 32]));
                    }
                    let _ = f.to_bytes();
                    true
                }
                Err(_) => false,
            },
            Target::CursorBytes => match Cursor::try_from(data) {
                Ok(c) => {
                    let _ = ctx.doc.get_cursor_position(&ctx.text, &c, None);
                    let _ = ctx.doc.get_cursor_position(&ctx.list, &c, Some(&ctx.doc.get_heads()));
                    let _ = c.to_string();
                    true
                }
                Err(_) => false,
            },
            Target::CursorStr => match std::str::from_utf8(data) {
                Ok(s) => match Cursor::try_from(s) {
                    Ok(c) => {
                        let _ = ctx.doc.get_cursor_position(&ctx.text, &c, None);
                        let _ = c.to_bytes();
                        true
                    }
                    Err(_) => false,
                },
                Err(_) => false,
            },
            Target::ObjIdBytes => match ObjId::try_from(data) {
                Ok(o) => {
                    let _ = ctx.doc.keys(&o).count();
                    let _ = ctx.doc.object_type(&o);
                    let _ = ctx.doc.length(&o);
                    let _ = ctx.doc.text(&o);
                    let _ = o.to_string();
                    true
                }
                Err(_) => false,
            },
            Target::ActorIdStr => std::str::from_utf8(data).ok().map(|s| ActorId::from_str(s).is_ok()).unwrap_or(false),
            Target::ActorIdBytes => {
                let a = ActorId::from(data);
                let _ = a.to_hex_string();
                true
            }
            Target::ChangeHashStr => std::str::from_utf8(data).ok().map(|s| ChangeHash::from_str(s).is_ok()).unwrap_or(false),
            Target::ChangeHashBytes => ChangeHash::try_from(data).is_ok(),
            Target::ImportObj => std::str::from_utf8(data)
                .ok()
                .map(|s| {
                    let a = ctx.doc.import_obj(s).is_ok();
                    let b = ctx.doc.import(s).is_ok();
                    a || b
                })
                .unwrap_or(false),
        }
    });
    let dt = thread_cpu_time().saturating_sub(t0);
    let (peak, total) = crate::alloc_count::end(base_live);
    match r {
        Ok(acc) => out.accepted = acc,
        Err(p) => {
            if or.panics {
                out.violations.push(("panic".into(), p.location.clone(), format!("{:?}: {}", t, p.message)))
            }
        }
    }
    if or.alloc && crate::alloc_count::installed() {
        let peak_limit = (64 << 20) + 1024 * n;
        let total_limit = (256 << 20) + 65536 * n;
        if peak > peak_limit {
            out.violations.push(("memory-bounded".into(), format!("{:?}:peak", t), format!("{} input bytes -> peak live heap {} bytes (limit {})", n, peak, peak_limit)));
        }
        if total > total_limit {
            out.violations.push(("memory-bounded".into(), format!("{:?}:total", t), format!("{} input bytes -> {} bytes allocated in total (limit {})", n, total, total_limit)));
        }
        // CPU time of this thread (not wall time: the verdict must not depend on machine load).
        // Ordinary cases take well under 10 ms; the limit is two orders of magnitude above that.
        if dt > Duration::from_millis(750) {
            out.violations.push(("time-bounded".into(), format!("{:?}", t), format!("{} input bytes took {:?} of CPU time", n, dt)));
        }
    }
    // heavier batteries on accepted documents
    if out.accepted && out.violations.is_empty() && (or.consistent || or.utf8) {
        let d = match t {
            Target::Load => Automerge::load(data).ok(),
            Target::LoadIgnore => Automerge::load_with_options(data, LoadOptions::new().on_partial_load(OnPartialLoad::Ignore)).ok(),
            Target::LoadDontCheck => Automerge::load_with_options(data, LoadOptions::new().verification_mode(VerificationMode::DontCheck)).ok(),
            Target::LoadUnverifiedHeads => Automerge::load_unverified_heads(data).ok(),
            Target::LoadIncDoc => {
                let mut d = ctx.doc.clone();
                d.load_incremental(data).ok().map(|_| d)
            }
            .filter(|d: &Automerge| d.get_heads() != ctx.doc.get_heads() || d.get_missing_deps(&[]) != ctx.doc.get_missing_deps(&[])),
            Target::ChangeFromBytes => Change::from_bytes(data.to_vec()).ok().and_then(|c| {
                let mut d = ctx.doc.clone();
                d.apply_changes([c]).ok().map(|_| d)
            }),
            Target::SyncMessage => sync::Message::decode(data).ok().and_then(|m| {
                let mut d = ctx.doc.clone();
                let mut st = sync::State::new();
                d.receive_sync_message(&mut st, m).ok().map(|_| d)
            }),
            _ => None,
        };
        if let Some(d) = d {
            if or.consistent {
                consistent(&d, &mut out, or.deep);
            }
            if or.utf8 {
                let r = guard(|| {
                    let mut o = CaseOut::default();
                    valid_utf8_strings(&d, &mut o);
                    o
                });
                match r {
                    Ok(o) => out.violations.extend(o.violations),
                    // a read that panics is C16's business; no string was handed out
                    Err(_) => {}
                }
            }
        }
    }
    out
}

// ---------------------------------------------------------------------------------------------
// worker / orchestrator

pub fn spec_for(property: &str, thorough: bool) -> (Spec, Oracles) {
    let (mut spec, or) = spec_for0(property, thorough);
    // debugging aid: VERIF_TARGETS=Load,Bundle restricts the run (the evidence then lists only those targets)
    if let Ok(f) = std::env::var("VERIF_TARGETS") {
        let want: Vec<&str> = f.split(',').collect();
        spec.targets.retain(|t| want.contains(&format!("{:?}", t).as_str()));
    }
    (spec, or)
}

fn spec_for0(property: &str, thorough: bool) -> (Spec, Oracles) {
    let few = Some(vec![0x00, 0x01, 0x7f, 0x80, 0xff]);
    match property {
        "C15" => (
            Spec { targets: ALL_TARGETS.to_vec(), k: if thorough { 3 } else { 2 }, text_depth: if thorough { 4 } else { 3 }, overwrite_values: if thorough { None } else { few }, leb_extremes: true, mutations: true, short: true, invalid_utf8_seqs: false },
            Oracles { deep: thorough, panics: true, consistent: false, alloc: false, utf8: false },
        ),
        "C16" => (
            Spec {
                targets: if thorough {
                    vec![Target::Load, Target::LoadDontCheck, Target::LoadUnverifiedHeads, Target::LoadIgnore, Target::LoadIncDoc]
                } else {
                    vec![Target::Load, Target::LoadUnverifiedHeads, Target::LoadIncDoc]
                },
                k: 1,
                text_depth: 0,
                overwrite_values: if thorough { None } else { few },
                leb_extremes: true,
                mutations: true,
                short: false,
                invalid_utf8_seqs: false,
            },
            Oracles { deep: thorough, panics: false, consistent: true, alloc: false, utf8: false },
        ),
        "C17" => (
            Spec { targets: ALL_TARGETS.to_vec(), k: 2, text_depth: 3, overwrite_values: Some(vec![0xff, 0x7f]), leb_extremes: true, mutations: thorough, short: true, invalid_utf8_seqs: false },
            Oracles { deep: thorough, panics: false, consistent: false, alloc: true, utf8: false },
        ),
        "C23" => (
            Spec { targets: vec![Target::Bloom], k: if thorough { 3 } else { 2 }, text_depth: 0, overwrite_values: None, leb_extremes: true, mutations: true, short: true, invalid_utf8_seqs: false },
            Oracles { deep: thorough, panics: true, consistent: false, alloc: false, utf8: false },
        ),
        other => panic!("no spec for {}", other),
    }
}

/// journal: [0,20) case in flight, [20,40) case of the last panic, [40,200) its location
const JOURNAL_LEN: usize = 200;
static JMAP: std::sync::atomic::AtomicPtr<u8> = std::sync::atomic::AtomicPtr::new(std::ptr::null_mut());

fn journal_panic(location: &str) {
    let p = JMAP.load(std::sync::atomic::Ordering::Relaxed);
    if p.is_null() {
        return;
    }
    unsafe {
        std::ptr::copy_nonoverlapping(p, p.add(20), 20);
        let b = location.as_bytes();
        let n = b.len().min(159);
        std::ptr::copy_nonoverlapping(b.as_ptr(), p.add(40), n);
        *p.add(40 + n) = 0;
    }
}

/// (case in flight, location of the last panic if it happened in that case)
fn read_journal(path: &std::path::Path) -> (u64, Option<String>) {
    let b = std::fs::read(path).unwrap_or_default();
    let num = |r: std::ops::Range<usize>| -> u64 { b.get(r).and_then(|x| std::str::from_utf8(x).ok()).and_then(|s| s.trim_matches(char::from(0)).trim().parse().ok()).unwrap_or(u64::MAX) };
    let idx = num(0..20.min(b.len()));
    let pidx = if b.len() >= 40 { num(20..40) } else { u64::MAX };
    let loc = if b.len() > 40 && pidx == idx && idx != u64::MAX {
        let rest = &b[40..];
        let end = rest.iter().position(|c| *c == 0).unwrap_or(rest.len());
        std::str::from_utf8(&rest[..end]).ok().filter(|s| !s.is_empty()).map(|s| s.to_string())
    } else {
        None
    };
    (idx, loc)
}

pub fn worker_main(args: &[String]) -> i32 {
    // args: <property> <tier> <shard> <nshards> <journal> <out> [--only idx]
    crate::util::install_panic_hook();
    let property = &args[0];
    let thorough = args[1] == "thorough";
    let shard: u64 = args[2].parse().unwrap();
    let nshards: u64 = args[3].parse().unwrap();
    let journal = std::path::PathBuf::from(&args[4]);
    let outp = std::path::PathBuf::from(&args[5]);
    let only: Option<u64> = args.iter().position(|a| a == "--only").map(|i| args[i + 1].parse().unwrap());
    let from: u64 = args.iter().position(|a| a == "--from").map(|i| args[i + 1].parse().unwrap()).unwrap_or(0);
    unsafe {
        let lim = libc::rlimit { rlim_cur: 3 << 30, rlim_max: 3 << 30 };
        libc::setrlimit(libc::RLIMIT_AS, &lim);
    }
    let ctx = build_ctx(thorough);
    let (spec, or) = if property == "C39" { crate::props::c39::spec() } else { spec_for(property, thorough) };
    let ctx = if property == "C39" { crate::props::c39::ctx(ctx) } else { ctx };
    let mut out = std::io::BufWriter::new(std::fs::File::create(&outp).expect("cannot create worker output"));
    let jf = std::fs::OpenOptions::new().create(true).read(true).write(true).truncate(true).open(&journal).expect("cannot create journal");
    // the journal is a shared mapping: recording the case in flight costs no system call
    jf.set_len(JOURNAL_LEN as u64).expect("journal");
    let jmap: *mut u8 = unsafe {
        use std::os::unix::io::AsRawFd;
        let p = libc::mmap(std::ptr::null_mut(), JOURNAL_LEN, libc::PROT_READ | libc::PROT_WRITE, libc::MAP_SHARED, jf.as_raw_fd(), 0);
        if p == libc::MAP_FAILED {
            std::ptr::null_mut()
        } else {
            p as *mut u8
        }
    };
    JMAP.store(jmap, std::sync::atomic::Ordering::Relaxed);
    let _ = crate::util::PANIC_TAP.set(journal_panic);
    // watchdog: a case that runs for more than 3 s ends the process with exit code 3; the parent
    // attributes it to the journaled case (a hang / near-endless loop)
    static CASE_STARTED_MS: std::sync::atomic::AtomicU64 = std::sync::atomic::AtomicU64::new(0);
    static CASE_IDX: std::sync::atomic::AtomicU64 = std::sync::atomic::AtomicU64::new(u64::MAX);
    static CASE_STARTED_CPU_MS: std::sync::atomic::AtomicU64 = std::sync::atomic::AtomicU64::new(0);
    fn process_cpu_ms() -> u64 {
        let mut ts = libc::timespec { tv_sec: 0, tv_nsec: 0 };
        unsafe { libc::clock_gettime(libc::CLOCK_PROCESS_CPUTIME_ID, &mut ts) };
        ts.tv_sec as u64 * 1000 + ts.tv_nsec as u64 / 1_000_000
    }
    let t_origin = Instant::now();
    {
        let t_origin = t_origin;
        std::thread::spawn(move || loop {
            std::thread::sleep(Duration::from_millis(200));
            let started = CASE_STARTED_MS.load(std::sync::atomic::Ordering::Relaxed);
            let started_cpu = CASE_STARTED_CPU_MS.load(std::sync::atomic::Ordering::Relaxed);
            let idx = CASE_IDX.load(std::sync::atomic::Ordering::Relaxed);
            // a hang burns CPU: 10 s of process CPU time on one case (wall time would depend on how
            // loaded the machine is); a case that blocks without using CPU is given 120 s of wall time
            let cpu = process_cpu_ms().saturating_sub(started_cpu);
            let wall = (t_origin.elapsed().as_millis() as u64).saturating_sub(started);
            if idx != u64::MAX && (cpu > 10000 || wall > 120000) {
                unsafe { libc::_exit(3) };
            }
        });
    }
    let mut cases = 0u64;
    let mut accepted = 0u64;
    let mut viol = 0u64;
    let mut per_target: std::collections::BTreeMap<String, (u64, u64)> = Default::default();
    let mut sample: Option<String> = None;
    let mut per_sig: std::collections::BTreeMap<String, u64> = Default::default();
    let mut last_progress = Instant::now();
    enumerate(&spec, &ctx, &mut |idx, t, data| {
        if let Some(o) = only {
            if idx != o {
                return;
            }
        } else if idx % nshards != shard || idx < from {
            return;
        }
        if jmap.is_null() {
            use std::os::unix::fs::FileExt;
            let _ = jf.write_at(format!("{:020}", idx).as_bytes(), 0);
        } else {
            let mut v = idx;
            for i in (0..20).rev() {
                unsafe { *jmap.add(i) = b'0' + (v % 10) as u8 };
                v /= 10;
            }
        }
        CASE_STARTED_MS.store(t_origin.elapsed().as_millis() as u64, std::sync::atomic::Ordering::Relaxed);
        CASE_STARTED_CPU_MS.store(process_cpu_ms(), std::sync::atomic::Ordering::Relaxed);
        CASE_IDX.store(idx, std::sync::atomic::Ordering::Relaxed);
        let c0 = thread_cpu_time();
        let r = exec(t, data, &ctx, &or);
        let took = thread_cpu_time().saturating_sub(c0);
        if took > Duration::from_millis(500) {
            let _ = writeln!(out, "{}", json!({"slow": true, "idx": idx, "target": format!("{:?}", t), "ms": took.as_millis() as u64, "len": data.len()}));
        }
        CASE_IDX.store(u64::MAX, std::sync::atomic::Ordering::Relaxed);
        cases += 1;
        let e = per_target.entry(format!("{:?}", t)).or_insert((0, 0));
        e.0 += 1;
        if r.accepted {
            accepted += 1;
            e.1 += 1;
            if sample.is_none() && data.len() > 4 {
                sample = Some(format!("{:?}:{}", t, hex::encode(&data[..data.len().min(48)])));
            }
        }
        if cases % 4096 == 0 && last_progress.elapsed() > Duration::from_millis(1500) {
            last_progress = Instant::now();
            let _ = writeln!(out, "{}", json!({"progress": true, "cases": cases, "accepted": accepted, "per_target": per_target, "per_sig": per_sig}));
            let _ = out.flush();
        }
        for (oracle, site, detail) in r.violations {
            viol += 1;
            // at most 3 cases are written out per signature; all are counted
            let n = per_sig.entry(format!("{}|{}", oracle, site)).or_insert(0u64);
            *n += 1;
            if *n <= 3 {
                let _ = writeln!(out, "{}", json!({"idx": idx, "target": format!("{:?}", t), "oracle": oracle, "site": site, "detail": detail, "hex": hex::encode(data)}));
                let _ = out.flush();
            }
        }
    });
    CASE_IDX.store(u64::MAX, std::sync::atomic::Ordering::Relaxed);
    let _ = writeln!(out, "{}", json!({"done": true, "cases": cases, "accepted": accepted, "violations": viol, "per_target": per_target, "sample": sample, "per_sig": per_sig}));
    let _ = out.flush();
    0
}

pub fn worker_bin() -> std::path::PathBuf {
    let me = std::env::current_exe().unwrap();
    me.parent().unwrap().join("amcw")
}

struct Running {
    shard: u64,
    child: std::process::Child,
    journal: std::path::PathBuf,
    out: std::path::PathBuf,
    last_change: Instant,
    last_idx: String,
    gen: u32,
}

fn spawn_worker(bin: &std::path::Path, dir: &std::path::Path, property: &str, tier: &str, shard: u64, nshards: u64, from: u64, gen: u32) -> std::io::Result<Running> {
    let j = dir.join(format!("journal{}", shard));
    let o = dir.join(format!("out{}.{}.jsonl", shard, gen));
    let _ = std::fs::remove_file(&o);
    let _ = std::fs::remove_file(&j);
    let child = std::process::Command::new(bin)
        .args([property, tier, &shard.to_string(), &nshards.to_string(), j.to_str().unwrap(), o.to_str().unwrap(), "--from", &from.to_string()])
        .stdout(std::process::Stdio::null())
        .stderr(std::process::Stdio::null())
        .spawn()?;
    Ok(Running { shard, child, journal: j, out: o, last_change: Instant::now(), last_idx: String::new(), gen })
}

/// Run the engine for one property across worker processes; fills `rep`.
pub fn run_engine(property: &str, tier: &str, rep: &Report) -> bool {
    let nshards: u64 = std::thread::available_parallelism().map(|n| n.get() as u64).unwrap_or(8).min(16);
    let dir = crate::report::verif_root().join("target").join("bytes").join(property);
    let _ = std::fs::remove_dir_all(&dir);
    let _ = std::fs::create_dir_all(&dir);
    let bin = worker_bin();
    if !bin.exists() {
        rep.machinery_error(format!("worker binary {} missing (run setup)", bin.display()));
        return false;
    }
    let mut pending: Vec<Running> = vec![];
    for s in 0..nshards {
        match spawn_worker(&bin, &dir, property, tier, s, nshards, 0, 0) {
            Ok(r) => pending.push(r),
            Err(e) => {
                rep.machinery_error(format!("cannot spawn worker: {}", e));
                return false;
            }
        }
    }
    let wall_cap = if tier == "thorough" { 3000.0 } else { 55.0 };
    let t0 = Instant::now();
    let mut complete = true;
    // (case idx, why, kind)
    let mut died: Vec<(u64, String, String, Option<String>)> = vec![];
    let mut outs: Vec<std::path::PathBuf> = vec![];
    while !pending.is_empty() {
        std::thread::sleep(Duration::from_millis(50));
        let mut still = vec![];
        for mut r in pending {
            match r.child.try_wait() {
                Ok(Some(st)) => {
                    outs.push(r.out.clone());
                    if !st.success() {
                        let (idx, ploc) = read_journal(&r.journal);
                        let kind = if st.code() == Some(3) { "hang".to_string() } else { "abort".to_string() };
                        died.push((idx, format!("worker {} ended with {:?}", r.shard, st), kind, ploc));
                        // carry on after the fatal case
                        if idx != u64::MAX && r.gen < 200 && t0.elapsed().as_secs_f64() < wall_cap {
                            match spawn_worker(&bin, &dir, property, tier, r.shard, nshards, idx + 1, r.gen + 1) {
                                Ok(n) => still.push(n),
                                Err(_) => complete = false,
                            }
                        } else {
                            complete = false;
                        }
                    }
                }
                Ok(None) => {
                    let idx = read_journal(&r.journal).0.to_string();
                    if idx != r.last_idx {
                        r.last_idx = idx;
                        r.last_change = Instant::now();
                    }
                    if t0.elapsed().as_secs_f64() > wall_cap {
                        let _ = r.child.kill();
                        let _ = r.child.wait();
                        outs.push(r.out.clone());
                        complete = false;
                        rep.note(format!("wall cap {} s reached: worker {} stopped at case {}", wall_cap, r.shard, r.last_idx.trim()));
                        continue;
                    }
                    still.push(r);
                }
                Err(e) => rep.machinery_error(format!("wait failed: {}", e)),
            }
        }
        pending = still;
    }
    // dead workers: the journaled case is re-executed twice in isolation; further deaths of a class
    // already confirmed in this run are counted without re-execution
    let mut case_lookup: Option<(Spec, Ctx)> = None;
    let mut confirmed: std::collections::BTreeSet<String> = Default::default();
    for (idx, why, kind, ploc) in died {
        if idx == u64::MAX {
            rep.machinery_error(format!("{} and left no journal", why));
            continue;
        }
        if case_lookup.is_none() {
            let ctx = build_ctx(tier == "thorough");
            let (spec, _) = if property == "C39" { crate::props::c39::spec() } else { spec_for(property, tier == "thorough") };
            let ctx = if property == "C39" { crate::props::c39::ctx(ctx) } else { ctx };
            case_lookup = Some((spec, ctx));
        }
        let (spec, ctx) = case_lookup.as_ref().unwrap();
        let mut found: Option<(Target, Vec<u8>)> = None;
        enumerate(spec, ctx, &mut |i, t, d| {
            if i == idx {
                found = Some((t, d.to_vec()));
            }
        });
        let (t, d) = found.unwrap_or((Target::Load, vec![]));
        // an abort right after a panic (panic inside a destructor, panic in a no-unwind frame) is
        // attributed to that panic's location, anything else to the decoder
        let class = match &ploc {
            Some(l) if kind == "abort" => format!("abort@{}", l),
            _ => format!("{:?}:{}", t, kind),
        };
        let mk = |detail: String| {
            Violation::new("process-death", class.clone(), detail).with_case(json!({"engine": "bytes", "idx": idx, "target": format!("{:?}", t), "hex": hex::encode(&d)}))
        };
        if confirmed.contains(&class) {
            rep.violation(mk(format!("case {} kills the worker process ({}); class already confirmed by re-execution in this run", idx, why)));
            continue;
        }
        let mut reproduced = 0;
        let mut last = String::new();
        for round in 0..2 {
            let j = dir.join(format!("journal-re{}", round));
            let o = dir.join(format!("out-re{}.jsonl", round));
            let mut c = std::process::Command::new(&bin)
                .args([property, tier, "0", "1", j.to_str().unwrap(), o.to_str().unwrap(), "--only", &idx.to_string()])
                .stdout(std::process::Stdio::null())
                .stderr(std::process::Stdio::null())
                .spawn()
                .unwrap();
            let t = Instant::now();
            loop {
                match c.try_wait() {
                    Ok(Some(st)) => {
                        if !st.success() {
                            reproduced += 1;
                            last = format!("{:?}", st);
                        }
                        break;
                    }
                    _ => {
                        if t.elapsed() > Duration::from_secs(120) {
                            let _ = c.kill();
                            let _ = c.wait();
                            last = "no verdict within 120 s".into();
                            break;
                        }
                        std::thread::sleep(Duration::from_millis(20));
                    }
                }
            }
        }
        if reproduced == 2 {
            confirmed.insert(class.clone());
            rep.violation(mk(format!("case {} kills the worker process ({}; reproduced twice in isolation: {})", idx, why, last)));
        } else {
            rep.machinery_error(format!("{} at case {} but the case did not reproduce in isolation ({} of 2; {})", why, idx, reproduced, last));
        }
    }
    // collect
    let mut targets: std::collections::BTreeMap<String, (u64, u64)> = Default::default();
    let mut done_shards = std::collections::BTreeSet::new();
    let mut extra_hits: std::collections::BTreeMap<String, u64> = Default::default();
    for o in outs.iter() {
        let Ok(text) = std::fs::read_to_string(o) else { continue };
        // the summary of a worker generation: its `done` line, else its last `progress` line
        let mut summary: Option<serde_json::Value> = None;
        for line in text.lines() {
            let Ok(j) = serde_json::from_str::<serde_json::Value>(line) else { continue };
            if j["done"].as_bool() == Some(true) {
                done_shards.insert(o.file_name().unwrap().to_string_lossy().split('.').next().unwrap().to_string());
                summary = Some(j);
            } else if j["progress"].as_bool() == Some(true) {
                summary = Some(j);
            } else if j["oracle"].is_string() {
                rep.violation(
                    Violation::new(j["oracle"].as_str().unwrap_or("?"), j["site"].as_str().unwrap_or("?"), j["detail"].as_str().unwrap_or("").to_string())
                        .with_case(json!({"engine": "bytes", "idx": j["idx"], "target": j["target"], "hex": j["hex"]})),
                );
            }
        }
        if let Some(j) = summary {
            rep.count("evaluations", j["cases"].as_u64().unwrap_or(0));
            rep.count("accepted_inputs", j["accepted"].as_u64().unwrap_or(0));
            if let Some(pt) = j["per_target"].as_object() {
                for (k, v) in pt {
                    let e = targets.entry(k.clone()).or_insert((0, 0));
                    e.0 += v[0].as_u64().unwrap_or(0);
                    e.1 += v[1].as_u64().unwrap_or(0);
                }
            }
            if let Some(sm) = j["sample"].as_str() {
                rep.sample(json!({"accepted_input": sm}));
            }
            if let Some(ps) = j["per_sig"].as_object() {
                for (k, v) in ps {
                    // the first 3 occurrences were written out as cases
                    let n = v.as_u64().unwrap_or(0);
                    if n > 3 {
                        *extra_hits.entry(k.replace(' ', "_")).or_insert(0u64) += n - 3;
                    }
                }
            }
        }
    }
    for (k, n) in extra_hits {
        rep.add_hits(&k, n);
    }
    if done_shards.len() as u64 != nshards {
        complete = false;
    }
    rep.set("per_target_cases_and_accepted", json!(targets));
    rep.count("distinct_nontrivial", targets.values().filter(|v| v.0 > 0).count() as u64 + targets.values().map(|v| v.1.min(1)).sum::<u64>());
    complete
}

/// replay one case of the engine in-process (no subprocess): used by `check --replay`
pub fn replay_case(property: &str, tier: &str, hexdata: &str, target: &str) -> i32 {
    let thorough = tier == "thorough";
    let ctx = build_ctx(thorough);
    let (_, or) = if property == "C39" { crate::props::c39::spec() } else { spec_for(property, thorough) };
    let ctx = if property == "C39" { crate::props::c39::ctx(ctx) } else { ctx };
    let data = hex::decode(hexdata).unwrap_or_default();
    let t = ALL_TARGETS.iter().find(|t| format!("{:?}", t) == target).cloned().unwrap_or(Target::Load);
    println!("replaying {:?} on {} bytes", t, data.len());
    let r = exec(t, &data, &ctx, &or);
    if r.violations.is_empty() {
        println!("no violation (accepted={})", r.accepted);
        0
    } else {
        for (o, s, d) in r.violations {
            println!("REPRODUCED sig={}|{} :: {}", o, s, d);
        }
        1
    }
}
