//! Level-synchronous parallel BFS over states of real automerge objects.
//!
//! `step` runs the real implementation on a clone of the state. States are deduplicated by
//! `key`; when a transition lands on a key already seen, its `fingerprint` (a digest of the full
//! observation) must equal the one stored for the first arrival ("confluence check").

use crate::report::{Report, Violation};
use crate::util::guard;
use rayon::prelude::*;
use serde_json::json;
use std::collections::HashMap;
use std::time::Instant;

pub enum Step<S> {
    Disabled,
    Next(S),
    Fail(Violation),
}

pub trait Model: Sync {
    type S: Send + Sync;
    type A: Clone + Send + Sync + std::fmt::Debug;

    fn inits(&self) -> Vec<(String, Self::S)>;
    fn actions(&self, s: &Self::S) -> Vec<Self::A>;
    fn step(&self, s: &Self::S, a: &Self::A) -> Step<Self::S>;
    fn key(&self, s: &Self::S) -> [u8; 32];
    /// digest of everything observable; compared between arrivals on the same key
    fn fingerprint(&self, s: &Self::S) -> [u8; 32] {
        self.key(s)
    }
    fn check_state(&self, _s: &Self::S) -> Result<(), Violation> {
        Ok(())
    }
    fn check_edge(&self, _s: &Self::S, _a: &Self::A, _n: &Self::S) -> Result<(), Violation> {
        Ok(())
    }
    /// a digest of the *outcome* of a state, used only to count distinct outcomes (vacuity signal)
    fn outcome(&self, s: &Self::S) -> [u8; 32] {
        self.fingerprint(s)
    }
    fn describe(&self, _s: &Self::S) -> serde_json::Value {
        serde_json::Value::Null
    }
}

#[derive(Clone)]
struct Node {
    parent: u32,
    action: u32,
    init: u32,
}

pub struct Limits {
    pub max_depth: usize,
    pub max_states: usize,
    pub max_wall_s: f64,
}

impl Default for Limits {
    fn default() -> Self {
        Limits {
            max_depth: usize::MAX,
            max_states: 3_000_000,
            max_wall_s: 3600.0,
        }
    }
}

/// resident set size of this process in GiB (0 if it cannot be read)
pub fn rss_gib() -> f64 {
    std::fs::read_to_string("/proc/self/statm")
        .ok()
        .and_then(|s| s.split_whitespace().nth(1).and_then(|p| p.parse::<f64>().ok()))
        .map(|pages| pages * 4096.0 / (1u64 << 30) as f64)
        .unwrap_or(0.0)
}

/// the explorers stop (reporting a capped, non-exhaustive run) before they can exhaust the machine
pub fn max_rss_gib() -> f64 {
    std::env::var("VERIF_MAX_RSS_GIB").ok().and_then(|s| s.parse().ok()).unwrap_or(20.0)
}

pub struct Outcome {
    pub states: u64,
    pub transitions: u64,
    pub max_depth: usize,
    pub exhausted: bool,
    pub distinct_outcomes: u64,
}

fn path_of(nodes: &[Node], mut id: u32) -> (u32, Vec<u32>) {
    let mut acts = vec![];
    loop {
        let n = &nodes[id as usize];
        if n.parent == u32::MAX {
            acts.reverse();
            return (n.init, acts);
        }
        acts.push(n.action);
        id = n.parent;
    }
}

/// Re-execute a path from scratch; returns the first violation met, if any.
pub fn replay_path<M: Model>(
    m: &M,
    init: usize,
    path: &[u32],
    verbose: bool,
) -> Result<Option<Violation>, String> {
    crate::util::with_replaying(|| replay_path_inner(m, init, path, verbose))
}

fn replay_path_inner<M: Model>(
    m: &M,
    init: usize,
    path: &[u32],
    verbose: bool,
) -> Result<Option<Violation>, String> {
    let mut inits = m.inits();
    if init >= inits.len() {
        return Err(format!("init index {} out of range", init));
    }
    let (label, mut s) = inits.swap_remove(init);
    if verbose {
        println!("init: {}", label);
    }
    match guard(|| m.check_state(&s)) {
        Ok(Ok(())) => {}
        Ok(Err(v)) => return Ok(Some(v)),
        Err(p) => return Ok(Some(Violation::new("panic", p.location, p.message))),
    }
    for (i, &ai) in path.iter().enumerate() {
        let acts = m.actions(&s);
        let a = acts
            .get(ai as usize)
            .ok_or_else(|| format!("step {}: action index {} out of range (divergence)", i, ai))?
            .clone();
        if verbose {
            println!("step {}: {:?}", i, a);
        }
        let r = guard(|| m.step(&s, &a));
        let n = match r {
            Err(p) => return Ok(Some(Violation::new("panic", p.location, p.message))),
            Ok(Step::Disabled) => {
                return Err(format!("step {}: action {:?} disabled (divergence)", i, a))
            }
            Ok(Step::Fail(v)) => return Ok(Some(v)),
            Ok(Step::Next(n)) => n,
        };
        match guard(|| m.check_edge(&s, &a, &n)) {
            Ok(Ok(())) => {}
            Ok(Err(v)) => return Ok(Some(v)),
            Err(p) => return Ok(Some(Violation::new("panic", p.location, p.message))),
        }
        match guard(|| m.check_state(&n)) {
            Ok(Ok(())) => {}
            Ok(Err(v)) => return Ok(Some(v)),
            Err(p) => return Ok(Some(Violation::new("panic", p.location, p.message))),
        }
        s = n;
    }
    if verbose {
        println!("final: {}", m.describe(&s));
    }
    Ok(None)
}

struct Succ<S> {
    parent: u32,
    action: u32,
    state: S,
    key: [u8; 32],
    fp: [u8; 32],
}

enum Item<S> {
    Succ(Succ<S>),
    Viol(u32, u32, Violation),
}

pub fn explore<M: Model>(m: &M, rep: &Report, lim: &Limits, label: &str) -> Outcome {
    let t0 = Instant::now();
    let mut nodes: Vec<Node> = vec![];
    let mut seen: HashMap<[u8; 32], (u32, [u8; 32])> = HashMap::new();
    let mut outcomes: std::collections::HashSet<[u8; 32]> = Default::default();
    let mut frontier: Vec<(u32, M::S)> = vec![];
    let mut transitions: u64 = 0;
    let mut exhausted = true;
    let mut init_labels = vec![];

    let report_violation = |nodes: &Vec<Node>, at: u32, extra: Option<u32>, v: Violation, init_labels: &Vec<String>| -> bool {
        // returns true if known
        let (init, mut path) = path_of(nodes, at);
        if let Some(a) = extra {
            path.push(a);
        }
        // name the actions by re-walking
        let mut names = vec![];
        {
            let mut inits = m.inits();
            let (_, mut s) = inits.swap_remove(init as usize);
            for &ai in path.iter() {
                let acts = m.actions(&s);
                if let Some(a) = acts.get(ai as usize) {
                    names.push(format!("{:?}", a));
                    match guard(|| m.step(&s, a)) {
                        Ok(Step::Next(n)) => s = n,
                        _ => break,
                    }
                } else {
                    break;
                }
            }
        }
        let mut v = v;
        let case = json!({
            "explorer": label,
            "init": init,
            "init_label": init_labels.get(init as usize),
            "path": path,
            "actions": names,
            "inner": v.case,
        });
        v.case = case;
        // a confluence alarm means the second path reaches a different state under the same key:
        // if that state itself violates an oracle (it was never checked, being a duplicate), report
        // that more specific violation instead
        if v.oracle == "confluence" {
            if let Ok(Some(mut v2)) = replay_path(m, init as usize, &path, false) {
                v2.case = v.case.clone();
                v = v2;
            }
        }
        if rep.is_known(&v) {
            rep.violation(v);
            return true;
        }
        // determinism: re-executing the path twice must fail twice with one and the same
        // signature. Oracles that skip already-checked documents during exploration check
        // everything on replay, so the replayed signature may name an earlier failing check of the
        // same state; in that case the (deterministic) replayed violation is the one reported.
        let mut replayed: Vec<Violation> = vec![];
        for round in 0..2 {
            match replay_path(m, init as usize, &path, false) {
                Ok(Some(v2)) => replayed.push(v2),
                Ok(None) => {
                    // the failing oracle may be the confluence check which needs two paths
                    if v.oracle != "confluence" {
                        rep.machinery_error(format!(
                            "violation {} did not reproduce on replay {} (path {:?})",
                            v.sig(), round, path
                        ));
                        return false;
                    }
                }
                Err(e) => {
                    rep.machinery_error(format!("replay diverged: {}", e));
                    return false;
                }
            }
        }
        if replayed.len() == 2 {
            if replayed[0].sig() != replayed[1].sig() {
                rep.machinery_error(format!(
                    "two replays of the same path gave different signatures: {} vs {}",
                    replayed[0].sig(),
                    replayed[1].sig()
                ));
                return false;
            }
            if replayed[0].sig() != v.sig() {
                let mut v2 = replayed.remove(0);
                v2.case = v.case.clone();
                v = v2;
                if rep.is_known(&v) {
                    rep.violation(v);
                    return true;
                }
            }
        }
        rep.violation(v);
        false
    };

    for (i, (lab, s)) in m.inits().into_iter().enumerate() {
        init_labels.push(lab);
        let key = m.key(&s);
        if seen.contains_key(&key) {
            continue;
        }
        let id = nodes.len() as u32;
        nodes.push(Node {
            parent: u32::MAX,
            action: 0,
            init: i as u32,
        });
        let fp = m.fingerprint(&s);
        seen.insert(key, (id, fp));
        outcomes.insert(m.outcome(&s));
        match guard(|| m.check_state(&s)) {
            Ok(Ok(())) => frontier.push((id, s)),
            Ok(Err(v)) => {
                report_violation(&nodes, id, None, v, &init_labels);
            }
            Err(p) => {
                report_violation(
                    &nodes,
                    id,
                    None,
                    Violation::new("panic", p.location, p.message),
                    &init_labels,
                );
            }
        }
    }

    // give memory freed by earlier explorations of this process back to the OS, so that the
    // resident-set cap below judges this exploration only
    unsafe {
        libc::malloc_trim(0);
    }
    let mut depth = 0usize;
    let mut max_depth = 0usize;
    while !frontier.is_empty() {
        if depth >= lim.max_depth {
            exhausted = false;
            rep.note(format!("{}: depth cap {} reached with {} frontier states", label, lim.max_depth, frontier.len()));
            break;
        }
        if rep.saturated() {
            exhausted = false;
            break;
        }
        let rss = rss_gib();
        if rss > max_rss_gib() {
            exhausted = false;
            rep.note(format!("{}: memory cap hit (resident set {:.1} GiB > {:.0} GiB) with {} states; complete below depth {}", label, rss, max_rss_gib(), nodes.len(), depth));
            break;
        }
        if t0.elapsed().as_secs_f64() > lim.max_wall_s || nodes.len() > lim.max_states {
            exhausted = false;
            rep.note(format!(
                "{}: cap hit (wall {:.0}s / {} states); complete below depth {}",
                label,
                t0.elapsed().as_secs_f64(),
                nodes.len(),
                depth
            ));
            break;
        }
        // phases 1 and 2 run chunk by chunk, so that the successors that have not been deduplicated yet
        // never exceed a bounded share of the frontier (memory), in frontier order (deterministic)
        let mut fresh: Vec<(u32, M::S)> = vec![];
        let mut memory_capped = false;
        for chunk in frontier.chunks(2048) {
        if rss_gib() > max_rss_gib() {
            memory_capped = true;
            break;
        }
        // phase 1: successors (parallel)
        let items: Vec<Vec<Item<M::S>>> = chunk
            .par_iter()
            .map(|(id, s)| {
                let mut out = vec![];
                let acts = m.actions(s);
                for (ai, a) in acts.iter().enumerate() {
                    let r = guard(|| m.step(s, a));
                    match r {
                        Err(p) => out.push(Item::Viol(
                            *id,
                            ai as u32,
                            Violation::new("panic", p.location, format!("in step {:?}: {}", a, p.message)),
                        )),
                        Ok(Step::Disabled) => {}
                        Ok(Step::Fail(v)) => out.push(Item::Viol(*id, ai as u32, v)),
                        Ok(Step::Next(n)) => {
                            match guard(|| m.check_edge(s, a, &n)) {
                                Ok(Ok(())) => {}
                                Ok(Err(v)) => {
                                    out.push(Item::Viol(*id, ai as u32, v));
                                    continue;
                                }
                                Err(p) => {
                                    out.push(Item::Viol(
                                        *id,
                                        ai as u32,
                                        Violation::new("panic", p.location, format!("in edge oracle after {:?}: {}", a, p.message)),
                                    ));
                                    continue;
                                }
                            }
                            let kf = guard(|| (m.key(&n), m.fingerprint(&n)));
                            match kf {
                                Ok((key, fp)) => out.push(Item::Succ(Succ {
                                    parent: *id,
                                    action: ai as u32,
                                    state: n,
                                    key,
                                    fp,
                                })),
                                Err(p) => out.push(Item::Viol(
                                    *id,
                                    ai as u32,
                                    Violation::new("panic", p.location, format!("reading state after {:?}: {}", a, p.message)),
                                )),
                            }
                        }
                    }
                }
                out
            })
            .collect();
        // phase 2: dedupe (sequential, deterministic order)
        for it in items.into_iter().flatten() {
            match it {
                Item::Viol(parent, action, v) => {
                    transitions += 1;
                    report_violation(&nodes, parent, Some(action), v, &init_labels);
                }
                Item::Succ(s) => {
                    transitions += 1;
                    if let Some((first, fp)) = seen.get(&s.key) {
                        if *fp != s.fp {
                            let (i1, p1) = path_of(&nodes, *first);
                            let v = Violation::new(
                                "confluence",
                                "same-key-different-observation",
                                format!(
                                    "two paths reach the same change sets but different observable state / op columns; first arrival init={} path={:?}",
                                    i1, p1
                                ),
                            );
                            report_violation(&nodes, s.parent, Some(s.action), v, &init_labels);
                        }
                        continue;
                    }
                    let id = nodes.len() as u32;
                    let init = nodes[s.parent as usize].init;
                    nodes.push(Node {
                        parent: s.parent,
                        action: s.action,
                        init,
                    });
                    seen.insert(s.key, (id, s.fp));
                    fresh.push((id, s.state));
                }
            }
        }
        }
        drop(frontier);
        if memory_capped {
            exhausted = false;
            rep.note(format!("{}: memory cap hit inside depth {} (resident set {:.1} GiB > {:.0} GiB); the level was not completed", label, depth + 1, rss_gib(), max_rss_gib()));
        }
        depth += 1;
        if !fresh.is_empty() {
            max_depth = depth;
        }
        // phase 3: state oracles on new states (parallel)
        let verdicts: Vec<(Result<(), Violation>, [u8; 32])> = fresh
            .par_iter()
            .map(|(_, s)| {
                let r = match guard(|| m.check_state(s)) {
                    Ok(r) => r,
                    Err(p) => Err(Violation::new("panic", p.location, format!("in state oracle: {}", p.message))),
                };
                let o = guard(|| m.outcome(s)).unwrap_or([0u8; 32]);
                (r, o)
            })
            .collect();
        let mut next = vec![];
        for ((id, s), (r, o)) in fresh.into_iter().zip(verdicts) {
            outcomes.insert(o);
            match r {
                Ok(()) => next.push((id, s)),
                Err(v) => {
                    // violating states are not expanded (their futures are not meaningful)
                    report_violation(&nodes, id, None, v, &init_labels);
                }
            }
        }
        frontier = next;
        if std::env::var("AMC_VERBOSE").is_ok() {
            eprintln!(
                "[{}] depth {} states {} frontier {} transitions {} ({:.1}s)",
                label,
                depth,
                nodes.len(),
                frontier.len(),
                transitions,
                t0.elapsed().as_secs_f64()
            );
        }
    }
    // samples: a few deepest paths
    if let Some(last) = nodes.len().checked_sub(1) {
        let (init, path) = path_of(&nodes, last as u32);
        let mut names = vec![];
        let mut inits = m.inits();
        if (init as usize) < inits.len() {
            let (_, mut s) = inits.swap_remove(init as usize);
            for &ai in path.iter() {
                let acts = m.actions(&s);
                if let Some(a) = acts.get(ai as usize) {
                    names.push(format!("{:?}", a));
                    match guard(|| m.step(&s, a)) {
                        Ok(Step::Next(n)) => s = n,
                        _ => break,
                    }
                }
            }
            rep.sample(json!({"explorer": label, "init": init_labels.get(init as usize), "actions": names, "final": m.describe(&s)}));
        }
    }
    rep.count("states", nodes.len() as u64);
    rep.count("transitions", transitions);
    rep.count("traces_validated_against_impl", transitions);
    rep.count("distinct_nontrivial", outcomes.len() as u64);
    Outcome {
        states: nodes.len() as u64,
        transitions,
        max_depth,
        exhausted,
        distinct_outcomes: outcomes.len() as u64,
    }
}
