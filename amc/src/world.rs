//! Worlds of real `Automerge` replicas and the history explorer model shared by most checks.

use crate::alphabet::{apply, Applied, Op, Val, EA, EB};
use crate::chunks::opcols_of_save;
use crate::explore::{Model, Step};
use crate::obs::{hstr, observe, Obs};
use crate::report::Violation;
use crate::util::sha256;
use automerge::marks::Mark;
use automerge::transaction::Transactable;
use automerge::{ActorId, Automerge, AutomergeError, Change, ChangeHash, ObjType, ReadDoc, TextEncoding, ROOT};
use serde_json::json;
use sha2::{Digest, Sha256};

pub fn actor(b: u8) -> ActorId {
    ActorId::from(vec![b, 0x77])
}

/// actor ids of replicas: chosen so that some sort before and some after the base/prelude actors
pub const REPLICA_ACTORS: [u8; 4] = [0x10, 0x90, 0x60, 0xE0];
pub const BASE_ACTOR: u8 = 0x50;
pub const PRE_A: u8 = 0x01;
pub const PRE_B: u8 = 0xF1;

pub fn edit_commit(doc: &mut Automerge, op: &Op) -> EditResult {
    let heads_before = doc.get_heads();
    let mut tx = doc.transaction();
    match apply(&mut tx, op) {
        Applied::Disabled => {
            tx.rollback();
            EditResult::Disabled
        }
        Applied::Err(e) => {
            tx.rollback();
            EditResult::Err(e)
        }
        Applied::Done => {
            let (h, _) = tx.commit();
            if h.is_none() || doc.get_heads() == heads_before {
                EditResult::Noop
            } else {
                EditResult::Done
            }
        }
    }
}

pub enum EditResult {
    Disabled,
    Noop,
    Done,
    Err(AutomergeError),
}

fn must(doc: &mut Automerge, f: impl FnOnce(&mut automerge::transaction::Transaction<'_>) -> Result<(), AutomergeError>) {
    let mut tx = doc.transaction();
    f(&mut tx).expect("base document construction failed");
    tx.commit();
}

pub fn new_doc(enc: TextEncoding, a: u8) -> Automerge {
    let mut d = Automerge::new_with_encoding(enc);
    d.set_actor(actor(a));
    d
}

/// B1: one of each role
pub fn base_b1(enc: TextEncoding) -> Automerge {
    let mut d = new_doc(enc, BASE_ACTOR);
    must(&mut d, |tx| {
        tx.put(ROOT, "a", 1)?;
        tx.put(ROOT, "c", automerge::ScalarValue::counter(10))?;
        let m = tx.put_object(ROOT, "m", ObjType::Map)?;
        tx.put(&m, "a", 1)?;
        let mm = tx.put_object(&m, "m", ObjType::Map)?;
        tx.put(&mm, "a", 0)?;
        let ml = tx.put_object(&m, "l", ObjType::List)?;
        tx.insert(&ml, 0, 9)?;
        let l = tx.put_object(ROOT, "l", ObjType::List)?;
        tx.insert(&l, 0, 1)?;
        tx.insert(&l, 1, "x")?;
        tx.insert(&l, 2, automerge::ScalarValue::counter(5))?;
        let t = tx.put_object(ROOT, "t", ObjType::Text)?;
        tx.splice_text(&t, 0, 0, "abc")?;
        Ok(())
    });
    d
}

/// B2: B1 after a prelude of concurrent edits by two extra actors: conflicts on `a` (int / counter
/// / object), a conflicted list element, concurrent inserts at the same position, tombstones, a
/// counter in a conflicted register (winning in list element 0, losing in the last list element),
/// a text element whose conflict winner was deleted later (its multi-unit loser is exposed),
/// overlapping marks, a block.
pub fn base_b2(enc: TextEncoding) -> Automerge {
    let b1 = base_b1(enc);
    let mut x = b1.fork().with_actor(actor(PRE_A));
    let mut y = b1.fork().with_actor(actor(PRE_B));
    let l = |d: &Automerge| crate::alphabet::resolve(d, crate::alphabet::Role::L).unwrap().0;
    let t = |d: &Automerge| crate::alphabet::resolve(d, crate::alphabet::Role::T).unwrap().0;
    let (lx, tx_) = (l(&x), t(&x));
    must(&mut x, |tx| {
        tx.put(ROOT, "a", automerge::ScalarValue::counter(100))?;
        tx.put(&lx, 0, "p")?;
        tx.insert(&lx, 1, "ix")?;
        tx.delete(&lx, 3)?;
        tx.splice_text(&tx_, 1, 0, "X")?;
        tx.mark(&tx_, Mark::new("bold".into(), true, 0, 3), EA)?;
        // the last list element becomes a register {counter (lower id), string (higher id, winner)}:
        // the mirror image of element 0, where the counter wins
        tx.put(&lx, 2, automerge::ScalarValue::counter(50))?;
        // text element 'c' gets a multi-unit value that loses against y's "z" ...
        tx.put(&tx_, 3, "👨\u{200d}👩\u{200d}👧")?;
        // ... and so does map key `e` (a counter that loses against y's string)
        tx.put(ROOT, "e", automerge::ScalarValue::counter(1))?;
        // `cc`: two concurrently created counters in one register ...
        tx.put(ROOT, "cc", automerge::ScalarValue::counter(10))?;
        Ok(())
    });
    must(&mut x, |tx| {
        tx.increment(ROOT, "a", 5)?;
        tx.increment(ROOT, "c", 1)?;
        Ok(())
    });
    let (ly, ty) = (l(&y), t(&y));
    must(&mut y, |tx| {
        tx.put(ROOT, "a", "str")?;
        tx.put(&ly, 0, automerge::ScalarValue::counter(7))?;
        tx.insert(&ly, 1, "iy")?;
        tx.splice_text(&ty, 1, 1, "Y")?;
        tx.mark(&ty, Mark::new("bold".into(), false, 1, 3), EB)?;
        tx.mark(&ty, Mark::new("link".into(), "u", 0, 2), automerge::marks::ExpandMark::None)?;
        tx.increment(ROOT, "c", 2)?;
        tx.put(&ly, 2, "q")?;
        tx.put(&ty, 2, "z")?;
        tx.put(ROOT, "e", "s")?;
        tx.put(ROOT, "cc", automerge::ScalarValue::counter(20))?;
        Ok(())
    });
    let mut y1 = y.clone();
    must(&mut y, |tx| {
        tx.split_block(&ty, 2)?;
        // ... and y deletes its own "z" without having seen x's value: merged in a later batch, this
        // exposes the losing multi-unit value (the element comes back with x's value)
        tx.delete(&ty, 3)?;
        // the same for map key `e`: its losing counter is exposed by this delete
        tx.delete(ROOT, "e")?;
        Ok(())
    });
    let mut d = b1;
    d.merge(&mut x).unwrap();
    d.merge(&mut y1).unwrap();
    d.merge(&mut y).unwrap();
    // ... incremented by a replica that has seen both (one increment op with two counter predecessors)
    must(&mut d, |tx| {
        tx.increment(ROOT, "cc", 5)?;
        Ok(())
    });
    d
}

/// B3: B1 plus a 300-character text and 300 map keys (column data exceeds the DEFLATE threshold,
/// hexane slabs split)
pub fn base_b3(enc: TextEncoding) -> Automerge {
    let mut d = base_b1(enc);
    let t = crate::alphabet::resolve(&d, crate::alphabet::Role::T).unwrap().0;
    let m = crate::alphabet::resolve(&d, crate::alphabet::Role::M).unwrap().0;
    must(&mut d, |tx| {
        let s: String = (0..300).map(|i| char::from(b'a' + (i % 26) as u8)).collect();
        tx.splice_text(&t, 1, 0, &s)?;
        for i in 0..300 {
            tx.put(&m, format!("k{:03}", i), i as i64)?;
        }
        Ok(())
    });
    d
}

pub fn base(name: &str, enc: TextEncoding) -> Automerge {
    match name {
        "B0" => new_doc(enc, BASE_ACTOR),
        "B1" => base_b1(enc),
        "B2" => base_b2(enc),
        "B3" => base_b3(enc),
        _ => panic!("unknown base {}", name),
    }
}

#[derive(Clone)]
pub struct World {
    pub docs: Vec<Automerge>,
    pub edits: Vec<u8>,
    pub merges: u8,
    /// remaining "actor churn" actions, and which replicas went through one (part of the key: a
    /// churned replica must be explored further even though its heads did not move)
    pub churn: u8,
    pub churned: Vec<bool>,
}

#[derive(Clone, Debug)]
pub enum HAct {
    Edit(usize, Op),
    Merge(usize, usize),
    /// an actor that sorts before every other one opens a transaction on the replica and rolls it
    /// back: the actor is added to and removed from the actor table, nothing else may change
    Churn(usize),
}

pub fn doc_key_bytes(d: &Automerge, h: &mut Sha256) {
    for s in hstr(&d.get_heads()) {
        h.update(s.as_bytes());
    }
    h.update(b"|");
    h.update(d.get_actor().to_bytes());
    h.update(b"|");
}

pub fn opcols(d: &Automerge) -> Result<Vec<u8>, String> {
    opcols_of_save(&d.save_nocompress())
}

pub fn obs_of(d: &Automerge) -> Obs {
    observe(d, None, &d.get_heads())
}

/// digest of everything a replica shows plus its op columns
pub fn doc_fingerprint(d: &Automerge, h: &mut Sha256) {
    let o = obs_of(d);
    h.update(serde_json::to_string(&o).unwrap().as_bytes());
    match opcols(d) {
        Ok(b) => h.update(&b),
        Err(e) => h.update(e.as_bytes()),
    }
}

pub type StateOracle = dyn Fn(&World) -> Result<(), Violation> + Sync + Send;
pub type EdgeOracle = dyn Fn(&World, &HAct, &World) -> Result<(), Violation> + Sync + Send;

pub struct History {
    pub ops: Vec<Op>,
    pub base_name: String,
    pub enc: TextEncoding,
    pub n: usize,
    pub edits: Vec<u8>,
    pub merges: u8,
    pub state_oracle: Option<Box<StateOracle>>,
    pub edge_oracle: Option<Box<EdgeOracle>>,
    /// include op columns in the fingerprint (confluence check on internal state)
    pub fp_opcols: bool,
    /// budget of actor-churn actions (0 = none)
    pub churn: u8,
}

impl History {
    pub fn new(theme: &str, base_name: &str, enc: TextEncoding, edits: &[u8], merges: u8) -> Self {
        let n = edits.len();
        let edits = edits.to_vec();
        History {
            ops: crate::alphabet::theme(theme).to_vec(),
            base_name: base_name.to_string(),
            enc,
            n,
            edits,
            merges,
            state_oracle: None,
            edge_oracle: None,
            fp_opcols: true,
            churn: 0,
        }
    }
    pub fn with_churn(mut self, n: u8) -> Self {
        self.churn = n;
        self
    }
    pub fn label(&self, theme: &str) -> String {
        format!("history[{} {} L={:?} M={} {:?}]", theme, self.base_name, self.edits, self.merges, self.enc)
    }
}

impl Model for History {
    type S = World;
    type A = HAct;

    fn inits(&self) -> Vec<(String, World)> {
        let b = base(&self.base_name, self.enc);
        let docs = (0..self.n)
            .map(|i| b.fork().with_actor(actor(REPLICA_ACTORS[i])))
            .collect();
        vec![(
            self.base_name.clone(),
            World {
                docs,
                edits: self.edits.clone(),
                merges: self.merges,
                churn: self.churn,
                churned: vec![false; self.n],
            },
        )]
    }

    fn actions(&self, s: &World) -> Vec<HAct> {
        let mut v = vec![];
        for r in 0..s.docs.len() {
            if s.edits[r] > 0 {
                for op in self.ops.iter() {
                    v.push(HAct::Edit(r, *op));
                }
            }
        }
        if s.merges > 0 {
            for r in 0..s.docs.len() {
                for q in 0..s.docs.len() {
                    if r != q {
                        v.push(HAct::Merge(r, q));
                    }
                }
            }
        }
        if s.churn > 0 {
            for r in 0..s.docs.len() {
                if !s.churned[r] {
                    v.push(HAct::Churn(r));
                }
            }
        }
        v
    }

    fn step(&self, s: &World, a: &HAct) -> Step<World> {
        match a {
            HAct::Edit(r, op) => {
                let mut d = s.docs[*r].clone();
                match edit_commit(&mut d, op) {
                    EditResult::Disabled | EditResult::Noop => Step::Disabled,
                    EditResult::Err(_) => Step::Disabled,
                    EditResult::Done => {
                        let mut n = s.clone();
                        n.docs[*r] = d;
                        n.edits[*r] -= 1;
                        Step::Next(n)
                    }
                }
            }
            HAct::Churn(r) => {
                use automerge::transaction::Transactable;
                let own = s.docs[*r].get_actor().clone();
                let mut d = s.docs[*r].clone().with_actor(actor(0x00));
                {
                    let mut tx = d.transaction();
                    if tx.put(automerge::ROOT, "churn", 1).is_err() {
                        return Step::Disabled;
                    }
                    tx.rollback();
                }
                d.set_actor(own);
                if d.get_heads() != s.docs[*r].get_heads() || opcols(&d).ok() != opcols(&s.docs[*r]).ok() {
                    return Step::Fail(Violation::new("churn-invisible", "rolled-back transaction of a new actor", "a transaction of a new actor that was rolled back changed the heads or the op columns".to_string()));
                }
                let mut n = s.clone();
                n.docs[*r] = d;
                n.churn -= 1;
                n.churned[*r] = true;
                Step::Next(n)
            }
            HAct::Merge(r, q) => {
                let mut d = s.docs[*r].clone();
                let mut o = s.docs[*q].clone();
                let before = d.get_heads();
                match d.merge(&mut o) {
                    Ok(_) => {
                        if d.get_heads() == before {
                            return Step::Disabled;
                        }
                        let mut n = s.clone();
                        n.docs[*r] = d;
                        n.merges -= 1;
                        Step::Next(n)
                    }
                    Err(e) => Step::Fail(Violation::new(
                        "merge-ok",
                        "merge returned Err between replicas of one history",
                        format!("{:?}", e),
                    )),
                }
            }
        }
    }

    fn key(&self, s: &World) -> [u8; 32] {
        let mut h = Sha256::new();
        for (i, d) in s.docs.iter().enumerate() {
            doc_key_bytes(d, &mut h);
            h.update([s.edits[i], s.churned.get(i).copied().unwrap_or(false) as u8]);
        }
        h.update([s.merges, s.churn]);
        let mut r = [0u8; 32];
        r.copy_from_slice(&h.finalize());
        r
    }

    fn fingerprint(&self, s: &World) -> [u8; 32] {
        let mut h = Sha256::new();
        for d in s.docs.iter() {
            if self.fp_opcols {
                doc_fingerprint(d, &mut h);
            } else {
                h.update(serde_json::to_string(&obs_of(d)).unwrap().as_bytes());
            }
        }
        let mut r = [0u8; 32];
        r.copy_from_slice(&h.finalize());
        r
    }

    fn outcome(&self, s: &World) -> [u8; 32] {
        let mut h = Sha256::new();
        for d in s.docs.iter() {
            let mut o = obs_of(d);
            o.heads.clear();
            h.update(serde_json::to_string(&o).unwrap().as_bytes());
        }
        let mut r = [0u8; 32];
        r.copy_from_slice(&h.finalize());
        r
    }

    fn check_state(&self, s: &World) -> Result<(), Violation> {
        match &self.state_oracle {
            Some(f) => f(s),
            None => Ok(()),
        }
    }

    fn check_edge(&self, s: &World, a: &HAct, n: &World) -> Result<(), Violation> {
        match &self.edge_oracle {
            Some(f) => f(s, a, n),
            None => Ok(()),
        }
    }

    fn describe(&self, s: &World) -> serde_json::Value {
        json!(s
            .docs
            .iter()
            .map(|d| crate::obs::render_hydrate(&d.hydrate(None)))
            .collect::<Vec<_>>())
    }
}

/// all changes of a document
pub fn all_changes(d: &Automerge) -> Vec<Change> {
    d.get_changes(&[])
}

/// union of the changes of all replicas, deduplicated by hash
pub fn union_changes(docs: &[Automerge]) -> Vec<Change> {
    let mut seen = std::collections::BTreeSet::new();
    let mut out = vec![];
    for d in docs {
        for c in d.get_changes(&[]) {
            if seen.insert(c.hash()) {
                out.push(c);
            }
        }
    }
    out
}

pub fn heads_of(changes: &[Change]) -> Vec<ChangeHash> {
    let mut named = std::collections::BTreeSet::new();
    for c in changes {
        for d in c.deps() {
            named.insert(*d);
        }
    }
    let mut h: Vec<ChangeHash> = changes.iter().map(|c| c.hash()).filter(|h| !named.contains(h)).collect();
    h.sort();
    h
}

pub fn sha(v: &[u8]) -> [u8; 32] {
    sha256(v)
}

#[allow(dead_code)]
fn _u(_: Val) {}
