//! Canonical observation of a document, built only from the public read API.

use automerge::{ChangeHash, ObjId, ObjType, ReadDoc, ScalarValue, Value, ROOT};
use serde::Serialize;
use std::collections::{BTreeMap, BTreeSet};

#[derive(Clone, Debug, PartialEq, Eq, Hash, Serialize, PartialOrd, Ord)]
pub struct OVal {
    pub id: String,
    pub v: String,
}

#[derive(Clone, Debug, PartialEq, Eq, Serialize)]
pub struct OText {
    /// (start index in units, conflict list) for every element `list_range` yields
    pub elems: Vec<(usize, Vec<OVal>)>,
    pub text: String,
    pub len: usize,
    /// raw marks(): (start, end, name, value)
    pub marks: Vec<(usize, usize, String, String)>,
    /// get_marks(i) for every unit i
    pub unit_marks: Vec<BTreeMap<String, String>>,
    /// spans rendered
    pub spans: Vec<OSpan>,
}

#[derive(Clone, Debug, PartialEq, Eq, Serialize)]
pub enum OSpan {
    Text(String, BTreeMap<String, String>),
    Block(String),
}

#[derive(Clone, Debug, PartialEq, Eq, Serialize)]
pub enum ONode {
    Map(BTreeMap<String, Vec<OVal>>),
    Table(BTreeMap<String, Vec<OVal>>),
    List(Vec<Vec<OVal>>),
    Text(OText),
    Err(String),
}

#[derive(Clone, Debug, PartialEq, Eq, Serialize)]
pub struct Obs {
    pub heads: Vec<String>,
    pub objs: BTreeMap<String, ONode>,
}

pub fn render_scalar(s: &ScalarValue) -> String {
    match s {
        ScalarValue::Counter(c) => format!("Counter({})", i64::from(c)),
        ScalarValue::F64(f) => format!("F64({:?}/{:016x})", f, f.to_bits()),
        other => format!("{:?}", other),
    }
}

pub fn render_objtype(t: ObjType) -> &'static str {
    match t {
        ObjType::Map => "<map>",
        ObjType::List => "<list>",
        ObjType::Text => "<text>",
        ObjType::Table => "<table>",
    }
}

pub fn render_value(v: &Value<'_>) -> String {
    match v {
        Value::Object(t) => render_objtype(*t).to_string(),
        Value::Scalar(s) => render_scalar(s),
    }
}

fn is_obj(v: &str) -> bool {
    v.starts_with('<')
}

pub fn hstr(h: &[ChangeHash]) -> Vec<String> {
    let mut v: Vec<String> = h.iter().map(|h| h.to_string()).collect();
    v.sort();
    v
}

fn conv_all(r: Result<Vec<(Value<'_>, ObjId)>, automerge::AutomergeError>) -> Vec<OVal> {
    match r {
        Ok(v) => v
            .into_iter()
            .map(|(v, id)| OVal {
                id: id.to_string(),
                v: render_value(&v),
            })
            .collect(),
        Err(e) => vec![OVal {
            id: "ERR".into(),
            v: format!("ERR({:?})", e),
        }],
    }
}

pub fn render_markset(m: &automerge::marks::MarkSet) -> BTreeMap<String, String> {
    m.iter()
        .map(|(k, v)| (k.to_string(), render_scalar(v)))
        .collect()
}

pub fn render_hydrate(v: &automerge::hydrate::Value) -> String {
    use automerge::hydrate::Value as H;
    match v {
        H::Scalar(s) => render_scalar(s),
        H::Map(m) => {
            let mut parts = vec![];
            for (k, mv) in m.iter() {
                parts.push(format!("{:?}:{}{}", k, render_hydrate(&mv.value), if mv.conflict { "!" } else { "" }));
            }
            parts.sort();
            format!("{{{}}}", parts.join(","))
        }
        H::List(l) => {
            let mut parts = vec![];
            for lv in l.iter() {
                parts.push(format!("{}{}", render_hydrate(&lv.value), if lv.conflict { "!" } else { "" }));
            }
            format!("[{}]", parts.join(","))
        }
        H::Text(t) => format!("T{:?}", t.to_string()),
    }
}

/// hydrate rendering without conflict markers
pub fn render_hydrate_plain(v: &automerge::hydrate::Value) -> String {
    use automerge::hydrate::Value as H;
    match v {
        H::Scalar(s) => render_scalar(s),
        H::Map(m) => {
            let mut parts = vec![];
            for (k, mv) in m.iter() {
                parts.push(format!("{:?}:{}", k, render_hydrate_plain(&mv.value)));
            }
            parts.sort();
            format!("{{{}}}", parts.join(","))
        }
        H::List(l) => {
            let mut parts = vec![];
            for lv in l.iter() {
                parts.push(render_hydrate_plain(&lv.value));
            }
            format!("[{}]", parts.join(","))
        }
        H::Text(t) => format!("T{:?}", t.to_string()),
    }
}

pub fn observe_obj<D: ReadDoc>(doc: &D, obj: &ObjId, ty: ObjType, heads: Option<&[ChangeHash]>) -> (ONode, Vec<(ObjId, ObjType)>) {
    let mut children = vec![];
    let mut note_children = |vals: &Result<Vec<(Value<'_>, ObjId)>, automerge::AutomergeError>| {
        if let Ok(v) = vals {
            for (v, id) in v {
                if let Value::Object(t) = v {
                    children.push((id.clone(), *t));
                }
            }
        }
    };
    let node = match ty {
        ObjType::Map | ObjType::Table => {
            let keys: Vec<String> = match heads {
                Some(h) => doc.keys_at(obj, h).collect(),
                None => doc.keys(obj).collect(),
            };
            let mut m = BTreeMap::new();
            for k in keys {
                let all = match heads {
                    Some(h) => doc.get_all_at(obj, k.as_str(), h),
                    None => doc.get_all(obj, k.as_str()),
                };
                note_children(&all);
                m.insert(k, conv_all(all));
            }
            if ty == ObjType::Map {
                ONode::Map(m)
            } else {
                ONode::Table(m)
            }
        }
        ObjType::List => {
            let len = match heads {
                Some(h) => doc.length_at(obj, h),
                None => doc.length(obj),
            };
            let mut l = vec![];
            for i in 0..len {
                let all = match heads {
                    Some(h) => doc.get_all_at(obj, i, h),
                    None => doc.get_all(obj, i),
                };
                note_children(&all);
                l.push(conv_all(all));
            }
            ONode::List(l)
        }
        ObjType::Text => {
            let len = match heads {
                Some(h) => doc.length_at(obj, h),
                None => doc.length(obj),
            };
            let text = match heads {
                Some(h) => doc.text_at(obj, h),
                None => doc.text(obj),
            };
            let text = match text {
                Ok(t) => t,
                Err(e) => return (ONode::Err(format!("text: {:?}", e)), children),
            };
            // elements: walk every unit index; consecutive units showing the same ids are one element
            let mut elems: Vec<(usize, Vec<OVal>)> = vec![];
            for i in 0..len {
                let all = match heads {
                    Some(h) => doc.get_all_at(obj, i, h),
                    None => doc.get_all(obj, i),
                };
                note_children(&all);
                let vals = conv_all(all);
                if let Some(last) = elems.last() {
                    if last.1 == vals {
                        continue;
                    }
                }
                elems.push((i, vals));
            }
            let marks = match heads {
                Some(h) => doc.marks_at(obj, h),
                None => doc.marks(obj),
            };
            let marks = match marks {
                Ok(m) => m
                    .into_iter()
                    .map(|m| (m.start, m.end, m.name().to_string(), render_scalar(m.value())))
                    .collect(),
                Err(e) => return (ONode::Err(format!("marks: {:?}", e)), children),
            };
            let mut unit_marks = vec![];
            for i in 0..len {
                match doc.get_marks(obj, i, heads) {
                    Ok(ms) => unit_marks.push(render_markset(&ms)),
                    Err(e) => {
                        let mut m = BTreeMap::new();
                        m.insert("ERR".to_string(), format!("{:?}", e));
                        unit_marks.push(m)
                    }
                }
            }
            let spans = match heads {
                Some(h) => doc.spans_at(obj, h),
                None => doc.spans(obj),
            };
            let spans = match spans {
                Ok(s) => s
                    .map(|s| match s {
                        automerge::iter::Span::Text { text, marks } => OSpan::Text(
                            text,
                            marks.map(|m| render_markset(&m)).unwrap_or_default(),
                        ),
                        automerge::iter::Span::Block(b) => {
                            OSpan::Block(render_hydrate(&automerge::hydrate::Value::Map(b)))
                        }
                    })
                    .collect(),
                Err(e) => return (ONode::Err(format!("spans: {:?}", e)), children),
            };
            ONode::Text(OText {
                elems,
                text,
                len,
                marks,
                unit_marks,
                spans,
            })
        }
    };
    (node, children)
}

pub fn observe<D: ReadDoc>(doc: &D, heads: Option<&[ChangeHash]>, doc_heads: &[ChangeHash]) -> Obs {
    let mut objs = BTreeMap::new();
    let mut todo = vec![(ROOT, ObjType::Map)];
    let mut seen = BTreeSet::new();
    while let Some((id, ty)) = todo.pop() {
        let ids = id.to_string();
        if !seen.insert(ids.clone()) {
            continue;
        }
        let (node, children) = observe_obj(doc, &id, ty, heads);
        objs.insert(ids, node);
        todo.extend(children);
    }
    Obs {
        heads: hstr(heads.unwrap_or(doc_heads)),
        objs,
    }
}

impl Obs {
    pub fn digest(&self) -> [u8; 32] {
        crate::util::sha256(serde_json::to_string(self).unwrap().as_bytes())
    }
    /// first difference, for messages
    pub fn diff(&self, other: &Obs) -> Option<String> {
        if self.heads != other.heads {
            return Some(format!("heads {:?} vs {:?}", self.heads, other.heads));
        }
        for (k, a) in self.objs.iter() {
            match other.objs.get(k) {
                None => return Some(format!("object {} only on left: {:?}", k, a)),
                Some(b) if a != b => return Some(format!("object {}: {:?} vs {:?}", k, a, b)),
                _ => {}
            }
        }
        for (k, b) in other.objs.iter() {
            if !self.objs.contains_key(k) {
                return Some(format!("object {} only on right: {:?}", k, b));
            }
        }
        None
    }
    pub fn child_ids(&self) -> Vec<String> {
        let _ = is_obj;
        self.objs.keys().cloned().collect()
    }
}

/// the reachable objects (through every conflict value) with their types
pub fn reachable<D: ReadDoc>(doc: &D, heads: Option<&[ChangeHash]>) -> Vec<(ObjId, ObjType)> {
    let mut out = vec![];
    let mut todo = vec![(ROOT, ObjType::Map)];
    let mut seen = BTreeSet::new();
    while let Some((id, ty)) = todo.pop() {
        if !seen.insert(id.to_string()) {
            continue;
        }
        let (_, children) = observe_obj(doc, &id, ty, heads);
        out.push((id, ty));
        todo.extend(children);
    }
    out.sort_by_key(|a| a.0.to_string());
    out
}

/// A second battery of reads (winner reads, ranges, values, hydrate, parents, cursors), rendered
/// as lines so two documents can be compared read by read.
pub fn extras<D: ReadDoc>(doc: &D, heads: Option<&[ChangeHash]>) -> BTreeMap<String, String> {
    use automerge::{CursorPosition, MoveCursor};
    let mut out = BTreeMap::new();
    for (obj, ty) in reachable(doc, heads) {
        let o = obj.to_string();
        out.insert(
            format!("{} hydrate", o),
            match doc.hydrate(&obj, heads) {
                Ok(v) => render_hydrate(&v),
                Err(e) => format!("ERR {:?}", e),
            },
        );
        out.insert(format!("{} type", o), format!("{:?}", doc.object_type(&obj)));
        let par = match heads {
            Some(h) => doc.parents_at(&obj, h),
            None => doc.parents(&obj),
        };
        out.insert(
            format!("{} parents", o),
            match par {
                Ok(p) => format!(
                    "{:?}",
                    p.map(|p| format!("{}/{:?}/{}", p.obj, p.prop, p.visible)).collect::<Vec<_>>()
                ),
                Err(e) => format!("ERR {:?}", e),
            },
        );
        let vals: Vec<String> = match heads {
            Some(h) => doc.values_at(&obj, h).map(|(v, id)| format!("{}@{}", render_value(&v), id)).collect(),
            None => doc.values(&obj).map(|(v, id)| format!("{}@{}", render_value(&v), id)).collect(),
        };
        match ty {
            ObjType::Map | ObjType::Table => {
                out.insert(format!("{} values", o), format!("{:?}", vals));
                let keys: Vec<String> = match heads {
                    Some(h) => doc.keys_at(&obj, h).collect(),
                    None => doc.keys(&obj).collect(),
                };
                for k in keys.iter().map(|s| s.as_str()).chain(["a", "b", "zz"]) {
                    let g = match heads {
                        Some(h) => doc.get_at(&obj, k, h),
                        None => doc.get(&obj, k),
                    };
                    out.insert(
                        format!("{} get {:?}", o, k),
                        match g {
                            Ok(Some((v, id))) => format!("{}@{}", render_value(&v), id),
                            Ok(None) => "None".into(),
                            Err(e) => format!("ERR {:?}", e),
                        },
                    );
                }
                let bounds = ["", "a", "b", "c", "m", "zz"];
                for lo in bounds.iter() {
                    for hi in bounds.iter() {
                        if lo > hi {
                            continue;
                        }
                        let r = lo.to_string()..hi.to_string();
                        let items: Vec<String> = match heads {
                            Some(h) => doc
                                .map_range_at(&obj, r, h)
                                .map(|i| format!("{}={}@{}{}", i.key, render_vref(&i.value), i.id(), if i.conflict { "!" } else { "" }))
                                .collect(),
                            None => doc
                                .map_range(&obj, r)
                                .map(|i| format!("{}={}@{}{}", i.key, render_vref(&i.value), i.id(), if i.conflict { "!" } else { "" }))
                                .collect(),
                        };
                        out.insert(format!("{} map_range {:?}..{:?}", o, lo, hi), format!("{:?}", items));
                    }
                }
            }
            ObjType::List | ObjType::Text => {
                let len = match heads {
                    Some(h) => doc.length_at(&obj, h),
                    None => doc.length(&obj),
                };
                if ty == ObjType::List {
                    out.insert(format!("{} values", o), format!("{:?}", vals));
                }
                for i in 0..len + 1 {
                    let g = match heads {
                        Some(h) => doc.get_at(&obj, i, h),
                        None => doc.get(&obj, i),
                    };
                    out.insert(
                        format!("{} get {}", o, i),
                        match g {
                            Ok(Some((v, id))) => format!("{}@{}", render_value(&v), id),
                            Ok(None) => "None".into(),
                            Err(e) => format!("ERR {:?}", e),
                        },
                    );
                }
                if ty == ObjType::List && len <= 6 {
                    for lo in 0..=len {
                        for hi in lo..=len + 1 {
                            let items: Vec<String> = match heads {
                                Some(h) => doc
                                    .list_range_at(&obj, lo..hi, h)
                                    .map(|i| format!("{}={}@{}{}", i.index, render_vref(&i.value), i.id(), if i.conflict { "!" } else { "" }))
                                    .collect(),
                                None => doc
                                    .list_range(&obj, lo..hi)
                                    .map(|i| format!("{}={}@{}{}", i.index, render_vref(&i.value), i.id(), if i.conflict { "!" } else { "" }))
                                    .collect(),
                            };
                            out.insert(format!("{} list_range {}..{}", o, lo, hi), format!("{:?}", items));
                        }
                    }
                }
                // cursors
                for after in [true, false] {
                    for pi in 0..len + 2 {
                        let mv = if after { MoveCursor::After } else { MoveCursor::Before };
                        let p = if pi < len {
                            CursorPosition::Index(pi)
                        } else if pi == len {
                            CursorPosition::Start
                        } else {
                            CursorPosition::End
                        };
                        let label = format!("{} cursor {:?} {:?}", o, p, mv);
                        match doc.get_cursor_moving(&obj, p, heads, mv) {
                            Ok(c) => {
                                let pos = doc.get_cursor_position(&obj, &c, heads);
                                out.insert(label, format!("{} -> {:?}", c, pos));
                            }
                            Err(e) => {
                                out.insert(label, format!("ERR {:?}", e));
                            }
                        }
                    }
                }
            }
        }
    }
    out
}

pub fn render_vref(v: &automerge::ValueRef<'_>) -> String {
    match v {
        automerge::ValueRef::Object(t) => render_objtype(*t).to_string(),
        automerge::ValueRef::Scalar(s) => {
            let sv: ScalarValue = s.to_owned().into();
            render_scalar(&sv)
        }
    }
}
