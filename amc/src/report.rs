//! Violations, known findings, replay artefacts and evidence files.
//!
//! A check run owns one `Report`. Oracles hand it `Violation`s; it classifies each by
//! signature against /verif/KNOWN_FINDINGS.txt (read-only at run time), writes a replay
//! artefact for every unlisted signature, and at the end writes the evidence file and
//! returns the process exit code (0 held / 1 violation / 2 machinery error).

use serde_json::{json, Value as J};
use std::collections::{BTreeMap, BTreeSet};
use std::path::{Path, PathBuf};
use std::sync::Mutex;
use std::time::Instant;

pub fn verif_root() -> PathBuf {
    if let Ok(p) = std::env::var("VERIF_ROOT") {
        return PathBuf::from(p);
    }
    PathBuf::from("/verif")
}

#[derive(Clone, Debug)]
pub struct Violation {
    /// name of the oracle that failed, e.g. "obs==ref"
    pub oracle: String,
    /// the stable part of the signature: panic file:line, or API call + argument class
    pub site: String,
    /// free text: what was expected / observed
    pub detail: String,
    /// a JSON description of the failing case sufficient to re-execute it
    pub case: J,
}

impl Violation {
    pub fn new(oracle: &str, site: impl Into<String>, detail: impl Into<String>) -> Self {
        Violation {
            oracle: oracle.to_string(),
            site: site.into(),
            detail: detail.into(),
            case: J::Null,
        }
    }
    pub fn with_case(mut self, case: J) -> Self {
        self.case = case;
        self
    }
    pub fn sig(&self) -> String {
        let s = format!("{}|{}", self.oracle, self.site);
        s.replace(' ', "_")
    }
}

pub type Check = Result<(), Violation>;

#[derive(Default)]
struct Inner {
    known_hits: BTreeMap<String, (usize, String)>,
    new_sigs: BTreeMap<String, (usize, PathBuf, String)>,
    counters: BTreeMap<String, u64>,
    samples: Vec<J>,
    notes: Vec<String>,
    extra: BTreeMap<String, J>,
    machinery_error: Option<String>,
}

pub struct Report {
    pub property: String,
    pub tier: String,
    pub seed: i64,
    pub level: String,
    start: Instant,
    known: BTreeMap<String, String>,
    inner: Mutex<Inner>,
    pub replay_cmd: Mutex<Vec<String>>,
    pub max_new: usize,
}

fn load_known(property: &str) -> BTreeMap<String, String> {
    let mut m = BTreeMap::new();
    let p = verif_root().join("KNOWN_FINDINGS.txt");
    if let Ok(s) = std::fs::read_to_string(p) {
        for line in s.lines() {
            let line = line.trim();
            if !line.starts_with("known:") {
                continue;
            }
            let rest = line["known:".len()..].trim();
            let mut prop = None;
            let mut sig = None;
            let mut words = rest.splitn(3, ' ');
            for _ in 0..2 {
                if let Some(w) = words.next() {
                    if let Some(v) = w.strip_prefix("property=") {
                        prop = Some(v.to_string());
                    } else if let Some(v) = w.strip_prefix("sig=") {
                        sig = Some(v.to_string());
                    }
                }
            }
            let what = words.next().unwrap_or("").to_string();
            if let (Some(p), Some(s)) = (prop, sig) {
                if p == property {
                    m.insert(s, what);
                }
            }
        }
    }
    m
}

impl Report {
    pub fn new(property: &str, tier: &str, level: &str) -> Self {
        let seed = std::env::var("VERIF_SEED")
            .ok()
            .and_then(|s| s.parse::<i64>().ok())
            .unwrap_or(0);
        Report {
            property: property.to_string(),
            tier: tier.to_string(),
            seed,
            level: level.to_string(),
            start: Instant::now(),
            known: load_known(property),
            inner: Mutex::new(Inner::default()),
            replay_cmd: Mutex::new(vec![]),
            max_new: 400,
        }
    }

    pub fn is_known(&self, v: &Violation) -> bool {
        self.known.contains_key(&v.sig())
    }

    /// true when enough distinct new violations were collected that exploring further is pointless
    pub fn saturated(&self) -> bool {
        let g = self.inner.lock().unwrap();
        g.new_sigs.len() >= self.max_new || g.machinery_error.is_some()
    }

    pub fn has_new(&self) -> bool {
        !self.inner.lock().unwrap().new_sigs.is_empty()
    }

    /// Record a violation. Returns true if it is a listed known finding.
    pub fn violation(&self, v: Violation) -> bool {
        let sig = v.sig();
        let mut g = self.inner.lock().unwrap();
        if let Some(what) = self.known.get(&sig) {
            let e = g.known_hits.entry(sig).or_insert((0, what.clone()));
            e.0 += 1;
            return true;
        }
        if let Some(e) = g.new_sigs.get_mut(&sig) {
            e.0 += 1;
            return false;
        }
        let dir = verif_root().join("replays").join(&self.property);
        let _ = std::fs::create_dir_all(&dir);
        let h = crate::util::sha256_hex(sig.as_bytes());
        let path = dir.join(format!("{}.json", &h[..16]));
        let body = json!({
            "property": self.property,
            "tier": self.tier,
            "oracle": v.oracle,
            "site": v.site,
            "sig": sig,
            "detail": v.detail,
            "cmd": *self.replay_cmd.lock().unwrap(),
            "case": v.case,
        });
        let _ = std::fs::write(&path, serde_json::to_string_pretty(&body).unwrap());
        g.new_sigs.insert(sig, (1, path, v.detail.clone()));
        false
    }

    /// add `n` further occurrences of a signature that was already recorded
    pub fn add_hits(&self, sig: &str, n: u64) {
        let mut g = self.inner.lock().unwrap();
        if let Some(e) = g.known_hits.get_mut(sig) {
            e.0 += n as usize;
        } else if let Some(e) = g.new_sigs.get_mut(sig) {
            e.0 += n as usize;
        }
    }

    pub fn machinery_error(&self, msg: impl Into<String>) {
        let mut g = self.inner.lock().unwrap();
        if g.machinery_error.is_none() {
            g.machinery_error = Some(msg.into());
        }
    }

    pub fn count(&self, key: &str, n: u64) {
        let mut g = self.inner.lock().unwrap();
        *g.counters.entry(key.to_string()).or_insert(0) += n;
    }
    pub fn set(&self, key: &str, v: J) {
        self.inner.lock().unwrap().extra.insert(key.to_string(), v);
    }
    pub fn get_count(&self, key: &str) -> u64 {
        *self.inner.lock().unwrap().counters.get(key).unwrap_or(&0)
    }
    pub fn sample(&self, v: J) {
        let mut g = self.inner.lock().unwrap();
        if g.samples.len() < 12 {
            g.samples.push(v);
        }
    }
    pub fn note(&self, s: impl Into<String>) {
        let s = s.into();
        let mut g = self.inner.lock().unwrap();
        if !g.notes.contains(&s) {
            g.notes.push(s);
        }
    }

    /// Write evidence, print KNOWN-FINDING / VIOLATION lines, return exit code.
    pub fn finish(&self, rule: &str, assumptions: &[&str], exhaustive: bool) -> i32 {
        let g = self.inner.lock().unwrap();
        let wall = self.start.elapsed().as_secs_f64();
        let c = |k: &str| *g.counters.get(k).unwrap_or(&0);
        let mut cov = serde_json::Map::new();
        let states = c("states");
        let transitions = c("transitions");
        let evaluations = c("evaluations").max(transitions).max(states);
        let distinct = c("distinct_nontrivial");
        cov.insert("evaluations".into(), json!(evaluations));
        cov.insert("distinct_nontrivial".into(), json!(distinct));
        cov.insert("rule".into(), json!(rule));
        if states > 0 {
            cov.insert("states".into(), json!(states));
            cov.insert("transitions".into(), json!(transitions.max(1)));
            cov.insert(
                "traces_validated_against_impl".into(),
                json!(c("traces_validated_against_impl").max(transitions)),
            );
        }
        let mut samples = g.samples.clone();
        if samples.is_empty() {
            samples.push(json!("(no sample recorded)"));
        }
        cov.insert("samples".into(), J::Array(samples));
        cov.insert("exhaustive".into(), json!(exhaustive));
        let mut others = serde_json::Map::new();
        for (k, v) in g.counters.iter() {
            if ![
                "states",
                "transitions",
                "evaluations",
                "distinct_nontrivial",
                "traces_validated_against_impl",
            ]
            .contains(&k.as_str())
            {
                others.insert(k.clone(), json!(v));
            }
        }
        cov.insert("counters".into(), J::Object(others));
        for (k, v) in g.extra.iter() {
            cov.insert(k.clone(), v.clone());
        }
        if !g.notes.is_empty() {
            cov.insert("notes".into(), json!(g.notes));
        }
        let known: Vec<J> = g
            .known_hits
            .iter()
            .map(|(s, (n, what))| json!({"sig": s, "hits": n, "what": what}))
            .collect();
        cov.insert("known_findings_hit".into(), J::Array(known));
        let newv: Vec<J> = g
            .new_sigs
            .iter()
            .map(|(s, (n, p, d))| json!({"sig": s, "hits": n, "replay": p, "detail": d}))
            .collect();
        cov.insert("violations_new".into(), J::Array(newv));
        if let Some(m) = &g.machinery_error {
            cov.insert("machinery_error".into(), json!(m));
        }
        let ev = json!({
            "property_id": self.property,
            "tier": self.tier,
            "seed": self.seed,
            "level": self.level,
            "coverage": J::Object(cov),
            "assumptions": assumptions,
            "wall_s": wall,
            "violations": g.new_sigs.len(),
        });
        let dir = verif_root().join("evidence");
        let _ = std::fs::create_dir_all(&dir);
        let path = dir.join(format!("{}.json", self.property));
        if let Err(e) = std::fs::write(&path, serde_json::to_string_pretty(&ev).unwrap()) {
            eprintln!("cannot write evidence {}: {}", path.display(), e);
            return 2;
        }
        for (sig, (n, what)) in g.known_hits.iter() {
            println!(
                "KNOWN-FINDING: property={} sig={} hits={} {}",
                self.property, sig, n, what
            );
        }
        // known entries that did not fire are reported (informational): the check still passes
        let fired: BTreeSet<&String> = g.known_hits.keys().collect();
        for (sig, _) in self.known.iter() {
            if !fired.contains(sig) {
                println!(
                    "note: listed known finding did not occur in this tier: property={} sig={}",
                    self.property, sig
                );
            }
        }
        println!(
            "{} {}: states={} transitions={} evaluations={} distinct={} exhaustive={} wall={:.1}s",
            self.property, self.tier, states, transitions, evaluations, distinct, exhaustive, wall
        );
        if let Some(m) = &g.machinery_error {
            eprintln!("MACHINERY-ERROR property={} {}", self.property, m);
            return 2;
        }
        if !g.new_sigs.is_empty() {
            for (sig, (n, p, d)) in g.new_sigs.iter() {
                println!(
                    "VIOLATION property={} replay={} sig={} hits={} :: {}",
                    self.property,
                    p.display(),
                    sig,
                    n,
                    truncate(d, 600)
                );
            }
            return 1;
        }
        0
    }
}

pub fn truncate(s: &str, n: usize) -> String {
    if s.len() <= n {
        s.to_string()
    } else {
        let mut e = n;
        while !s.is_char_boundary(e) {
            e -= 1;
        }
        format!("{}…", &s[..e])
    }
}

pub fn read_replay(path: &Path) -> J {
    let s = std::fs::read_to_string(path).expect("cannot read replay file");
    serde_json::from_str(&s).expect("replay file is not JSON")
}
