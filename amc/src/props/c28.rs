//! C28 — rollback restores the exact prior document.

use super::docpool::{run_pool, DocInfo, PoolCfg};
use super::Args;
use crate::alphabet::{apply, theme, Applied, Key, Op, Role, Val};
use crate::obs::hstr;
use crate::report::{Report, Violation};
use crate::world::{actor, edit_commit, obs_of, EditResult};
use automerge::transaction::Transactable;
use automerge::{AutoCommit, Automerge, AutomergeError, ReadDoc};
use std::sync::Arc;

fn snapshot(d: &Automerge) -> (crate::obs::Obs, Vec<String>, Vec<u8>) {
    (obs_of(d), hstr(&d.get_heads()), d.save_nocompress())
}

fn check_same(before: &(crate::obs::Obs, Vec<String>, Vec<u8>), d: &Automerge, how: &str, seq: &str) -> Result<(), Violation> {
    let after = snapshot(d);
    if after.1 != before.1 {
        return Err(Violation::new("rollback-restores", format!("{}:heads", how), format!("after rolling back [{}] heads changed", seq)));
    }
    if let Some(diff) = after.0.diff(&before.0) {
        return Err(Violation::new("rollback-restores", format!("{}:reads", how), format!("after rolling back [{}]: {}", seq, diff)));
    }
    if after.2 != before.2 {
        return Err(Violation::new(
            "rollback-restores",
            format!("{}:saved-bytes", how),
            format!("after rolling back [{}] save_nocompress() differs ({} vs {} bytes) although reads are equal", seq, after.2.len(), before.2.len()),
        ));
    }
    Ok(())
}

fn followup_same(pristine: &Automerge, d: &Automerge, how: &str, seq: &str) -> Result<(), Violation> {
    let mut a = pristine.clone();
    let mut b = d.clone();
    let op = Op::Put(Role::Root, Key::K("followup"), Val::Int(1));
    match (edit_commit(&mut a, &op), edit_commit(&mut b, &op)) {
        (EditResult::Done, EditResult::Done) => {
            let (ca, cb) = (a.get_last_local_change().unwrap(), b.get_last_local_change().unwrap());
            if ca.raw_bytes() != cb.raw_bytes() {
                return Err(Violation::new(
                    "rollback-later-edits-identical",
                    how.to_string(),
                    format!("after rolling back [{}] the same edit produces different change bytes (seq {} vs {}, start_op {} vs {}, actor {} vs {})", seq, ca.seq(), cb.seq(), ca.start_op(), cb.start_op(), ca.actor_id(), cb.actor_id()),
                ));
            }
            Ok(())
        }
        _ => Err(Violation::new("rollback-later-edits-identical", how.to_string(), "follow-up edit failed")),
    }
}

/// an invalid call: must return Err, and the transaction must still roll back cleanly
fn failing_call<T: Transactable>(tx: &mut T) -> bool {
    tx.put(automerge::ROOT, 0usize, 1).is_err()
}

pub fn sequences(ops: &[Op], max_len: usize) -> Vec<Vec<Op>> {
    let mut out: Vec<Vec<Op>> = vec![];
    let mut cur: Vec<Vec<Op>> = vec![vec![]];
    for _ in 0..max_len {
        let mut next = vec![];
        for s in cur.iter() {
            for op in ops.iter() {
                let mut n = s.clone();
                n.push(*op);
                next.push(n);
            }
        }
        out.extend(next.iter().cloned());
        cur = next;
    }
    out
}

pub fn run(args: &Args) -> i32 {
    let max_len = if args.thorough() { 3 } else { 2 };
    let oracle = move |d: &Automerge, info: &DocInfo, rep: &Report| -> Result<(), Violation> {
        if info.kind != "replica" {
            return Ok(());
        }
        let ops = theme(&info.theme);
        let before = snapshot(d);
        // quick tier: full-length sequences on documents at most one change away from the base,
        // single calls on the rest
        let extra = d.get_changes(&[]).len().saturating_sub(info.base_hashes.len());
        let max_len = if rep.tier == "thorough" || extra <= 1 { max_len } else { 1 };
        for seq in sequences(ops, max_len) {
            let name = format!("{:?}", seq);
            // (1) Automerge::transaction ... rollback
            let mut x = d.clone();
            {
                let mut tx = x.transaction();
                let mut applied = 0;
                for op in seq.iter() {
                    match apply(&mut tx, op) {
                        Applied::Done => applied += 1,
                        _ => break,
                    }
                }
                if applied == 0 {
                    tx.rollback();
                    continue;
                }
                // a rejected call in the middle must not disturb the rollback
                let _ = failing_call(&mut tx);
                tx.rollback();
            }
            rep.count("transactions_rolled_back", 1);
            check_same(&before, &x, "Transaction::rollback", &name)?;
            followup_same(d, &x, "Transaction::rollback", &name)?;
            // (2) transact() whose closure returns Err
            let mut y = d.clone();
            let r = y.transact::<_, (), AutomergeError>(|tx| {
                for op in seq.iter() {
                    match apply(tx, op) {
                        Applied::Done => {}
                        _ => break,
                    }
                }
                Err(AutomergeError::Fail)
            });
            if r.is_ok() {
                return Err(Violation::new("transact-err-rolls-back", "transact", "transact returned Ok for a closure that returned Err"));
            }
            check_same(&before, &y, "transact(Err)", &name)?;
            followup_same(d, &y, "transact(Err)", &name)?;
        }
        // (3) AutoCommit::rollback (only single and double calls: it goes through the same inner code)
        let bytes = d.save();
        for seq in sequences(ops, 2.min(max_len)) {
            let name = format!("{:?}", seq);
            let mut ac = AutoCommit::load(&bytes).map_err(|e| Violation::new("load-ok", "AutoCommit::load", format!("{:?}", e)))?.with_actor(actor(0x10));
            let mut pristine = AutoCommit::load(&bytes).unwrap().with_actor(actor(0x10));
            let p = pristine.document().clone();
            let before_ac = snapshot(&p);
            let mut applied = 0;
            for op in seq.iter() {
                match apply(&mut ac, op) {
                    Applied::Done => applied += 1,
                    _ => break,
                }
            }
            if applied == 0 {
                continue;
            }
            ac.rollback();
            let x = ac.document().clone();
            check_same(&before_ac, &x, "AutoCommit::rollback", &name)?;
            followup_same(&p, &x, "AutoCommit::rollback", &name)?;
            rep.count("transactions_rolled_back", 1);
        }
        Ok(())
    };
    run_pool(
        "C28",
        args,
        "model_checking",
        PoolCfg { quick_scale: 0, thorough_scale: 0, merged: false, budgets: if args.thorough() { None } else { Some((vec![1, 1], 1)) }, ..Default::default() },
        Arc::new(oracle),
        "every distinct replica document reached by the history explorer (incl. fresh actors whose first change this would be, documents with conflicts, tombstones, marks) x every sequence of <=2 (quick) / <=3 (thorough) calls of the theme's alphabet in one transaction, followed by a rejected call, then rolled back via Transaction::rollback, transact() returning Err, and AutoCommit::rollback: reads, heads and save_nocompress() bytes (incl. the actor table) are identical to before, and the same follow-up edit on the rolled-back document and on an untouched clone produces byte-identical change bytes",
        &["sequences stop at the first call that is not enabled in the state"],
    )
}
