//! C30 — object ids stay valid and stable; C19 — identifiers serialise losslessly and resolve
//! correctly (the id part; sync messages/states are covered in c19.rs).

use super::{new_report, run_models, Args};
use crate::explore::Limits;
use crate::obs::{hstr, observe_obj, reachable, ONode};
use crate::report::{Report, Violation};
use crate::world::{actor, obs_of, History, World};
use automerge::transaction::Transactable;
use automerge::{Automerge, ChangeHash, ObjId, ObjType, ReadDoc, TextEncoding};
use std::collections::{BTreeSet, HashSet};
use std::sync::{Arc, Mutex};

/// does `d` contain the object (its creating op)?  decided from the change history, not the id lookup
fn contains_obj(d: &Automerge, id: &ObjId) -> bool {
    if *id == automerge::ROOT {
        return true;
    }
    let s = id.to_string();
    let Some((ctr, actor_hex)) = s.split_once('@') else { return false };
    let ctr: u64 = ctr.parse().unwrap_or(0);
    d.get_changes(&[]).iter().any(|c| c.actor_id().to_hex_string() == actor_hex && c.start_op().get() <= ctr && ctr <= c.max_op())
}

fn subtree(d: &Automerge, id: &ObjId, ty: ObjType) -> ONode {
    observe_obj(d, id, ty, None).0
}

pub fn id_forms(id: &ObjId, d: &Automerge) -> Result<Vec<(&'static str, ObjId)>, Violation> {
    let mut v = vec![("original", id.clone())];
    let b = id.to_bytes();
    let from_b = ObjId::try_from(&b[..]).map_err(|e| Violation::new("objid-bytes-roundtrip", "Err", format!("{}: {:?}", id, e)))?;
    if &from_b != id {
        return Err(Violation::new("objid-bytes-roundtrip", "neq", format!("{} -> {}", id, from_b)));
    }
    v.push(("from-bytes", from_b));
    let from_s = d.import_obj(&id.to_string()).map_err(|e| Violation::new("objid-string-roundtrip", "Err", format!("{}: {:?}", id, e)))?;
    if &from_s != id {
        return Err(Violation::new("objid-string-roundtrip", "neq", format!("{} -> {}", id, from_s)));
    }
    v.push(("from-string", from_s));
    Ok(v)
}

pub fn check_world(w: &World, rep: &Report) -> Result<(), Violation> {
    // documents in which ids must keep working: each replica, every pairwise merge, and
    // save/load + fork of those
    let mut docs: Vec<(String, Automerge)> = w.docs.iter().enumerate().map(|(i, d)| (format!("replica{}", i), d.clone())).collect();
    for i in 0..w.docs.len() {
        for j in 0..w.docs.len() {
            if i != j {
                let mut a = w.docs[i].clone();
                a.merge(&mut w.docs[j].clone()).map_err(|e| Violation::new("merge-ok", "Err", format!("{:?}", e)))?;
                let l = Automerge::load(&a.save()).map_err(|e| Violation::new("load-ok", "Err", format!("{:?}", e)))?;
                // a fork under an actor that sorts BEFORE every existing one (shifts all actor indexes)
                let mut f = a.fork().with_actor(actor(0x00));
                let mut tx = f.transaction();
                tx.put(automerge::ROOT, "fork-edit", 1).unwrap();
                tx.commit();
                docs.push((format!("merge{}<-{}", i, j), a));
                docs.push((format!("load(merge{}<-{})", i, j), l));
                docs.push((format!("fork+edit(merge{}<-{})", i, j), f));
            }
        }
    }
    for (si, src) in w.docs.iter().enumerate() {
        for (id, ty) in reachable(src, None) {
            if id == automerge::ROOT {
                continue;
            }
            let forms = id_forms(&id, src)?;
            for (dname, d) in docs.iter() {
                let has = contains_obj(d, &id);
                for (fname, fid) in forms.iter() {
                    let site = format!("{}:{}", fname, if has { "present" } else { "absent" });
                    if has {
                        // the object's own listing in that document, found by walking from its root,
                        // or (if unreachable there) read directly: must be the object with this id
                        match d.object_type(fid) {
                            Ok(t) if t == ty => {}
                            other => {
                                return Err(Violation::new(
                                    "id-resolves",
                                    site,
                                    format!("id {} (a {:?} from replica {}) in {}: object_type = {:?}", id, ty, si, dname, other),
                                ))
                            }
                        }
                        let via_id = subtree(d, fid, ty);
                        // compare with the same object as that document's own traversal names it
                        if let Some(own) = obs_of(d).objs.get(&id.to_string()) {
                            if &via_id != own {
                                return Err(Violation::new(
                                    "id-same-object",
                                    site,
                                    format!("id {} used in {} shows {:?}, the document's own traversal shows {:?}", id, dname, via_id, own),
                                ));
                            }
                        }
                        rep.count("id_uses", 1);
                    } else {
                        // the replica lacks the object: an error or an empty result, never data
                        let t = d.object_type(fid);
                        let keys: Vec<String> = d.keys(fid).collect();
                        let len = d.length(fid);
                        let g = d.get(fid, "a");
                        let g0 = d.get(fid, 0usize);
                        let leaked = t.is_ok() || !keys.is_empty() || len != 0 || matches!(g, Ok(Some(_))) || matches!(g0, Ok(Some(_)));
                        if leaked {
                            return Err(Violation::new(
                                "absent-id-gives-nothing",
                                site,
                                format!("id {} is not in {} yet object_type={:?} keys={:?} length={} get(a)={:?}", id, dname, t, keys, len, g.map(|x| x.map(|y| y.1.to_string()))),
                            ));
                        }
                        rep.count("absent_id_uses", 1);
                    }
                }
                // an edit through the old id lands in the same object
                if has && matches!(ty, ObjType::Map) {
                    let mut e = d.clone();
                    let mut tx = e.transaction();
                    if tx.put(&id, "via-old-id", 7).is_ok() {
                        tx.commit();
                        match obs_of(&e).objs.get(&id.to_string()) {
                            Some(ONode::Map(m)) if m.contains_key("via-old-id") => {}
                            Some(other) => return Err(Violation::new("edit-through-id", "map", format!("put through {} in {} did not land in it: {:?}", id, dname, other))),
                            None => {
                                // unreachable object: read it directly
                                if !matches!(e.get(&id, "via-old-id"), Ok(Some(_))) {
                                    return Err(Violation::new("edit-through-id", "map-unreachable", format!("put through {} in {} not readable back", id, dname)));
                                }
                            }
                        }
                    } else {
                        tx.rollback();
                        return Err(Violation::new("edit-through-id", "rejected", format!("put through id {} rejected in {} which contains the object", id, dname)));
                    }
                }
            }
        }
    }
    Ok(())
}

pub fn run(args: &Args) -> i32 {
    let rep = Arc::new(new_report("C30", args, "model_checking"));
    let enc = TextEncoding::UnicodeCodePoint;
    let mut models = vec![];
    let cfgs: Vec<(&str, &str, Vec<u8>, u8)> = if args.thorough() {
        vec![("nested", "B0", vec![3, 2], 2), ("nested", "B1", vec![2, 2], 2), ("nested", "B2", vec![2, 1, 1], 1), ("map", "B2", vec![2, 2], 1), ("list", "B2", vec![2, 1], 1)]
    } else {
        vec![("nested", "B0", vec![2, 2], 1), ("nested", "B1", vec![2, 1], 1), ("nested", "B2", vec![1, 1], 1), ("map", "B2", vec![1, 1], 1)]
    };
    for (theme, bname, edits, merges) in cfgs {
        let mut h = History::new(theme, bname, enc, &edits, merges);
        let seen: Mutex<HashSet<Vec<String>>> = Mutex::new(HashSet::new());
        let rep2 = rep.clone();
        h.state_oracle = Some(Box::new(move |w: &World| {
            let key: Vec<String> = w.docs.iter().flat_map(|d| {
                let mut v = hstr(&d.get_heads());
                v.push("|".into());
                v
            }).collect();
            if !seen.lock().unwrap().insert(key) && !crate::util::replaying() {
                return Ok(());
            }
            rep2.count("evaluations", 1);
            check_world(w, &rep2)
        }));
        models.push((h.label(theme), h));
    }
    let lim = Limits {
        max_wall_s: if args.thorough() { 1700.0 } else { 45.0 },
        ..Default::default()
    };
    let ex = run_models(&rep, args, models, &lim).unwrap_or(false);
    let _: Option<BTreeSet<ChangeHash>> = None;
    rep.finish(
        "history explorer over the nested-object theme (objects in maps in lists, replaced and deleted parents) with replica actors sorting before and after the base actors; in every state every object id harvested from every replica (original value, its to_bytes/try_from form and its to_string/import_obj form) is used in every other replica, every pairwise merge, load(save) of the merge and a fork of the merge that commits under an actor sorting before all others (shifting every actor index): where the document holds the object (decided from the change history) object_type matches and the listing read through the id equals the document's own listing of that object, and a put through the id lands in it; where it does not, object_type/keys/length/get give an error or nothing",
        &["'document holds the object' is decided from Change start_op/max_op ranges, independent of id lookup"],
        ex,
    )
}
