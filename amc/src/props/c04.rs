//! C04 — change metadata and heads follow causality.

use super::{new_report, run_models, Args};
use crate::explore::{Limits, Model, Step};
use crate::graph::Graph;
use crate::obs::{hstr, render_hydrate};
use crate::report::Violation;
use crate::world::actor;
use automerge::transaction::{CommitOptions, Transactable};
use automerge::{ActorId, AutoCommit, Change, ChangeHash, ReadDoc, ROOT};
use sha2::{Digest, Sha256};
use std::collections::{BTreeMap, BTreeSet};

const ACTORS: [u8; 6] = [0x10, 0x90, 0x60, 0xE0, 0x05, 0xA5];

#[derive(Clone)]
pub struct RW {
    docs: Vec<AutoCommit>,
    iso: Vec<Option<Vec<ChangeHash>>>,
    next_actor: usize,
    depth_left: u8,
    edit_no: u8,
}

#[derive(Clone, Debug)]
pub enum RAct {
    Edit(usize),
    EmptyCommit(usize),
    Merge(usize, usize),
    Fork(usize, usize),
    SetActor(usize, u8),
    Isolate(usize, Vec<ChangeHash>),
    Integrate(usize),
    SaveLoad(usize),
}

pub struct RepModel {
    pub depth: u8,
    pub n: usize,
}

fn all(d: &AutoCommit) -> Vec<Change> {
    let mut d = d.clone();
    d.get_changes(&[])
}

/// heads of the underlying document (AutoCommit::get_heads answers the isolation heads while isolated)
fn heads(d: &AutoCommit) -> Vec<ChangeHash> {
    let mut d = d.clone();
    d.document().get_heads()
}

impl Model for RepModel {
    type S = RW;
    type A = RAct;

    fn inits(&self) -> Vec<(String, RW)> {
        let mut b = AutoCommit::new().with_actor(actor(0x50));
        b.put(ROOT, "base", 1).unwrap();
        b.commit();
        let docs: Vec<AutoCommit> = (0..self.n).map(|i| b.fork().with_actor(actor(ACTORS[i]))).collect();
        vec![(
            "common-base".into(),
            RW {
                iso: vec![None; self.n],
                docs,
                next_actor: self.n,
                depth_left: self.depth,
                edit_no: 0,
            },
        )]
    }

    fn actions(&self, s: &RW) -> Vec<RAct> {
        if s.depth_left == 0 {
            return vec![];
        }
        let mut v = vec![];
        let n = s.docs.len();
        for r in 0..n {
            v.push(RAct::Edit(r));
        }
        for r in 0..n {
            // AutoCommit::empty_change is documented to depend on all current heads of the
            // document; the statement is silent on isolation, so it is only driven outside it
            if s.iso[r].is_none() {
                v.push(RAct::EmptyCommit(r));
            }
        }
        for r in 0..n {
            for q in 0..n {
                if r != q && s.iso[r].is_none() {
                    v.push(RAct::Merge(r, q));
                }
            }
        }
        if s.next_actor < ACTORS.len() {
            v.push(RAct::Fork(0, n - 1));
        }
        // switch to a previously used actor id all of whose changes (anywhere) are present here
        let mut by_actor: BTreeMap<Vec<u8>, BTreeSet<ChangeHash>> = BTreeMap::new();
        for d in s.docs.iter() {
            for c in all(d) {
                by_actor.entry(c.actor_id().to_bytes().to_vec()).or_default().insert(c.hash());
            }
        }
        for r in 0..n {
            if s.iso[r].is_some() {
                continue;
            }
            let have: BTreeSet<ChangeHash> = all(&s.docs[r]).iter().map(|c| c.hash()).collect();
            for &a in ACTORS.iter().take(s.next_actor) {
                let id = actor(a);
                if s.docs.iter().any(|d| d.get_actor() == &id) {
                    continue; // in use by a live replica
                }
                if let Some(hs) = by_actor.get(id.to_bytes()) {
                    if hs.is_subset(&have) {
                        v.push(RAct::SetActor(r, a));
                    }
                }
            }
        }
        for r in 0..n {
            if s.iso[r].is_none() {
                let g = Graph::new(all(&s.docs[r]));
                for hs in g.all_head_sets(6) {
                    if !hs.is_empty() {
                        v.push(RAct::Isolate(r, hs));
                    }
                }
            } else {
                v.push(RAct::Integrate(r));
            }
        }
        for r in 0..n {
            if s.iso[r].is_none() {
                v.push(RAct::SaveLoad(r));
            }
        }
        v
    }

    fn step(&self, s: &RW, a: &RAct) -> Step<RW> {
        let mut n = s.clone();
        n.depth_left -= 1;
        match a {
            RAct::Edit(r) => {
                n.edit_no += 1;
                let v = n.edit_no as i64;
                if n.docs[*r].put(ROOT, "k", v).is_err() {
                    return Step::Disabled;
                }
                match n.docs[*r].commit() {
                    Some(h) => {
                        if n.iso[*r].is_some() {
                            n.iso[*r] = Some(vec![h]);
                        }
                    }
                    None => return Step::Disabled,
                }
            }
            RAct::EmptyCommit(r) => {
                let h = n.docs[*r].empty_change(CommitOptions::default());
                if n.iso[*r].is_some() {
                    n.iso[*r] = Some(vec![h]);
                }
            }
            RAct::Merge(r, q) => {
                let mut o = n.docs[*q].clone();
                let before = heads(&n.docs[*r]);
                if let Err(e) = n.docs[*r].merge(&mut o) {
                    return Step::Fail(Violation::new("merge-ok", "merge Err", format!("{:?}", e)));
                }
                if heads(&n.docs[*r]) == before {
                    return Step::Disabled;
                }
            }
            RAct::Fork(r, q) => {
                let a = ACTORS[n.next_actor];
                n.next_actor += 1;
                let f = n.docs[*r].fork().with_actor(actor(a));
                n.docs[*q] = f;
                n.iso[*q] = None;
            }
            RAct::SetActor(r, a) => {
                n.docs[*r].set_actor(actor(*a));
            }
            RAct::Isolate(r, hs) => {
                n.docs[*r].isolate(hs);
                n.iso[*r] = Some(hs.clone());
            }
            RAct::Integrate(r) => {
                n.docs[*r].integrate();
                n.iso[*r] = None;
            }
            RAct::SaveLoad(r) => {
                let a = n.docs[*r].get_actor().clone();
                let bytes = n.docs[*r].save();
                match AutoCommit::load(&bytes) {
                    Ok(d) => n.docs[*r] = d.with_actor(a),
                    Err(e) => return Step::Fail(Violation::new("load(save)-ok", "Err", format!("{:?}", e))),
                }
            }
        }
        Step::Next(n)
    }

    fn key(&self, s: &RW) -> [u8; 32] {
        let mut h = Sha256::new();
        for (i, d) in s.docs.iter().enumerate() {
            for x in hstr(&heads(d)) {
                h.update(x.as_bytes());
            }
            h.update(b"|");
            h.update(d.get_actor().to_bytes());
            h.update(b"|");
            h.update(format!("{:?}", s.iso[i].as_ref().map(|v| hstr(v))).as_bytes());
        }
        h.update([s.depth_left, s.next_actor as u8]);
        let mut r = [0u8; 32];
        r.copy_from_slice(&h.finalize());
        r
    }

    fn fingerprint(&self, s: &RW) -> [u8; 32] {
        let mut h = Sha256::new();
        h.update(self.key(s));
        for d in s.docs.iter() {
            h.update(render_hydrate(&d.hydrate(ROOT, None).unwrap()).as_bytes());
        }
        let mut r = [0u8; 32];
        r.copy_from_slice(&h.finalize());
        r
    }

    fn check_state(&self, s: &RW) -> Result<(), Violation> {
        for d in s.docs.iter() {
            let cs = all(d);
            let g = Graph::new(cs.clone());
            let set: BTreeSet<ChangeHash> = cs.iter().map(|c| c.hash()).collect();
            let want = hstr(&g.heads_of(&set));
            let got = hstr(&heads(d));
            if want != got {
                return Err(Violation::new("heads==maximal-changes", "get_heads", format!("get_heads {:?}, changes nobody depends on {:?}", got, want)));
            }
            // the two head sets the library keeps agree: reading at the heads = reading now
            // (only meaningful outside isolation, where plain reads are at the isolation heads)
            let hh = heads(d);
            let plain = render_hydrate(&d.document_ref().hydrate(None));
            let at = render_hydrate(&d.document_ref().hydrate(Some(&hh)));
            if plain != at {
                return Err(Violation::new("hydrate(heads)==hydrate()", "hydrate", format!("at heads {} vs current {}", at, plain)));
            }
            // (actor, seq) consecutive per actor
            let mut by: BTreeMap<Vec<u8>, Vec<u64>> = BTreeMap::new();
            for c in cs.iter() {
                by.entry(c.actor_id().to_bytes().to_vec()).or_default().push(c.seq());
            }
            for (a, mut seqs) in by {
                seqs.sort();
                if seqs != (1..=seqs.len() as u64).collect::<Vec<_>>() {
                    return Err(Violation::new("seq-consecutive", "seq", format!("actor {} has seqs {:?}", hex::encode(a), seqs)));
                }
            }
        }
        Ok(())
    }

    fn check_edge(&self, s: &RW, a: &RAct, n: &RW) -> Result<(), Violation> {
        let r = match a {
            RAct::Edit(r) | RAct::EmptyCommit(r) => *r,
            _ => return Ok(()),
        };
        let before = all(&s.docs[r]);
        let before_set: BTreeSet<ChangeHash> = before.iter().map(|c| c.hash()).collect();
        let after = all(&n.docs[r]);
        let created: Vec<&Change> = after.iter().filter(|c| !before_set.contains(&c.hash())).collect();
        if created.len() != 1 {
            return Err(Violation::new("one-change-per-commit", format!("{:?}", std::mem::discriminant(a)), format!("{} new changes", created.len())));
        }
        let c = created[0];
        let kind = if s.iso[r].is_some() { "isolated" } else { "plain" };
        // next sequence number for its actor
        let prev_seq = before.iter().filter(|x| x.actor_id() == c.actor_id()).map(|x| x.seq()).max().unwrap_or(0);
        if c.seq() != prev_seq + 1 {
            return Err(Violation::new("seq-next", kind, format!("change by {} has seq {}, previous max {}", c.actor_id(), c.seq(), prev_seq)));
        }
        // start op above every op of its causal past (and of everything applied when not isolated)
        let g = Graph::new(after.clone());
        let past = g.ancestors(c.deps());
        let scope: Vec<&Change> = if s.iso[r].is_some() {
            before.iter().filter(|x| past.contains(&x.hash())).collect()
        } else {
            before.iter().collect()
        };
        let max_op = scope.iter().map(|x| x.max_op()).max().unwrap_or(0);
        if c.start_op().get() <= max_op {
            return Err(Violation::new("start_op>max_op", kind, format!("start_op {} but a visible change has max_op {}", c.start_op(), max_op)));
        }
        // dependencies
        let mut want: BTreeSet<ChangeHash> = match &s.iso[r] {
            Some(h) => h.iter().cloned().collect(),
            None => heads(&s.docs[r]).into_iter().collect(),
        };
        if s.iso[r].is_none() {
            if let Some(prev) = before.iter().filter(|x| x.actor_id() == c.actor_id()).max_by_key(|x| x.seq()) {
                want.insert(prev.hash());
            }
        }
        let got: BTreeSet<ChangeHash> = c.deps().iter().cloned().collect();
        if got != want || got.len() != c.deps().len() {
            return Err(Violation::new(
                "deps==heads(+own previous)",
                kind,
                format!("deps {:?} want {:?}", hstr(c.deps()), hstr(&want.into_iter().collect::<Vec<_>>())),
            ));
        }
        // a non-isolated commit keeps using the replica's actor
        if s.iso[r].is_none() && c.actor_id() != s.docs[r].get_actor() {
            return Err(Violation::new("actor", kind, format!("change by {} but replica actor is {}", c.actor_id(), s.docs[r].get_actor())));
        }
        Ok(())
    }

    fn describe(&self, s: &RW) -> serde_json::Value {
        serde_json::json!(s.docs.iter().map(|d| hstr(&heads(d))).collect::<Vec<_>>())
    }
}

trait DocRef {
    fn document_ref(&self) -> automerge::Automerge;
}
impl DocRef for AutoCommit {
    fn document_ref(&self) -> automerge::Automerge {
        let mut c = self.clone();
        c.document().clone()
    }
}

#[allow(dead_code)]
fn _a(_: ActorId) {}

pub fn run(args: &Args) -> i32 {
    let rep = new_report("C04", args, "model_checking");
    let depth = if args.thorough() { 7 } else { 5 };
    let models = vec![
        (format!("replicas[n=2 depth={}]", depth + 1), RepModel { depth: depth + 1, n: 2 }),
        (format!("replicas[n=3 depth={}]", depth), RepModel { depth, n: 3 }),
    ];
    let lim = Limits {
        max_wall_s: if args.thorough() { 1700.0 } else { 45.0 },
        ..Default::default()
    };
    let ex = run_models(&rep, args, models, &lim).unwrap_or(false);
    rep.finish(
        "explicit-state BFS over 2-3 real AutoCommit replicas with the replica-level alphabet {edit+commit, empty commit, merge(r<-s), fork (new actor), set_actor(previously used id whose changes are all present), isolate(H) for every consistent cut H, integrate, save+load}; edge oracle for every created change: exactly one new change, seq = 1 + previous max for its actor, start_op greater than every max_op it has applied (its causal past when isolated), deps (as a set) = heads before (isolation heads when isolated) + the actor's previous change when not isolated; state oracle: get_heads = changes nobody depends on, hydrate(heads) = hydrate(), per-actor seqs are 1..n",
        &["depth bound: 5/4 actions (quick), 7/6 (thorough)"],
        ex,
    )
}
