//! C34 / C35 — hexane columns against `Vec`, and their encodings.
//!
//! World: one real column and a `Vec` of the same values.  The explorer (breadth first,
//! deduplicated on contents + slab layout, because futures depend on where slabs are cut)
//! applies every edit of a small alphabet at every index; every transition is compared with
//! the same edit on the `Vec`, every distinct state gets the whole read battery.
//!
//! C35 reuses the states: save/load round trip, canonical bytes, and (in `c35`) every
//! single-site mutation of the saved bytes.

use super::{new_report, Args};
use crate::report::{Report, Violation};
use crate::util::guard;
use rayon::prelude::*;
use serde_json::json;
use std::collections::HashSet;
use std::fmt::Debug;
use std::hash::Hash;

#[derive(Clone, Debug, PartialEq, Eq, Hash)]
pub enum Act<V> {
    Insert(usize, V),
    Remove(usize),
    RemoveN(usize, usize),
    Push(V),
    Splice(usize, usize, Vec<V>),
    SpliceRun(usize, usize, V, usize),
    Truncate(usize),
    Clear,
    Pop,
}

pub trait Sut: Clone + Send + Sync {
    type V: Clone + Eq + Debug + Hash + Ord + Send + Sync;
    fn name() -> String;
    fn new(max_seg: usize) -> Self;
    fn domain() -> Vec<Self::V>;
    fn layout(&self) -> Vec<usize>;
    fn len(&self) -> usize;
    fn values(&self) -> Vec<Self::V>;
    /// apply; Err(()) if the action does not exist for this column type
    fn apply(&mut self, a: &Act<Self::V>) -> Result<(), ()>;
    /// the read battery against the model; returns the first disagreement
    fn battery(&self, model: &[Self::V]) -> Result<(), String>;
    fn save(&self) -> Vec<u8>;
    fn load(bytes: &[u8]) -> Result<Self, String>;
    fn from_values(v: &[Self::V]) -> Self;
    fn invariants(&self);
    fn describe_value(v: &Self::V) -> String {
        format!("{:?}", v)
    }
}

pub fn apply_model<V: Clone>(m: &mut Vec<V>, a: &Act<V>) {
    match a {
        Act::Insert(i, v) => m.insert(*i, v.clone()),
        Act::Remove(i) => {
            m.remove(*i);
        }
        Act::RemoveN(i, n) => {
            m.drain(*i..*i + *n);
        }
        Act::Push(v) => m.push(v.clone()),
        Act::Splice(i, d, vs) => {
            m.splice(*i..*i + *d, vs.iter().cloned());
        }
        Act::SpliceRun(i, d, v, n) => {
            m.splice(*i..*i + *d, std::iter::repeat(v.clone()).take(*n));
        }
        Act::Truncate(k) => m.truncate(*k),
        Act::Clear => m.clear(),
        Act::Pop => {
            m.pop();
        }
    }
}

pub fn actions<V: Clone>(n: usize, dom: &[V], max_len: usize) -> Vec<Act<V>> {
    let mut out = vec![];
    for v in dom {
        out.push(Act::Push(v.clone()));
        for i in 0..=n {
            out.push(Act::Insert(i, v.clone()));
        }
    }
    for i in 0..n {
        out.push(Act::Remove(i));
        for k in [2usize, 3] {
            if i + k <= n {
                out.push(Act::RemoveN(i, k));
            }
        }
    }
    // splices: every index, deletes {0,1,2,rest}, inserted lists: [], [a], [a,a], [a,b], [a,b,a]
    let mut lists: Vec<Vec<V>> = vec![vec![]];
    for a in dom {
        lists.push(vec![a.clone()]);
        lists.push(vec![a.clone(), a.clone()]);
        for b in dom.iter().take(2) {
            lists.push(vec![a.clone(), b.clone()]);
        }
    }
    if dom.len() >= 2 {
        lists.push(vec![dom[0].clone(), dom[1].clone(), dom[0].clone()]);
        lists.push(vec![dom[1].clone(), dom[1].clone(), dom[1].clone()]);
    }
    for i in 0..=n {
        let mut dels = vec![0usize, 1, 2, n - i];
        dels.sort();
        dels.dedup();
        for d in dels {
            if i + d > n {
                continue;
            }
            for l in lists.iter() {
                if d == 0 && l.is_empty() {
                    continue;
                }
                out.push(Act::Splice(i, d, l.clone()));
            }
            for v in dom.iter().take(2) {
                for cnt in [3usize, 5] {
                    out.push(Act::SpliceRun(i, d, v.clone(), cnt));
                }
            }
        }
    }
    for k in [0usize, 1, n / 2, n.saturating_sub(1), n, n + 1] {
        out.push(Act::Truncate(k));
    }
    out.push(Act::Clear);
    out.push(Act::Pop);
    out.retain(|a| {
        let grow = match a {
            Act::Insert(..) | Act::Push(_) => 1,
            Act::Splice(_, d, l) => l.len().saturating_sub(*d),
            Act::SpliceRun(_, d, _, c) => c.saturating_sub(*d),
            _ => 0,
        };
        n + grow <= max_len
    });
    out
}

pub struct Stats {
    pub states: u64,
    pub transitions: u64,
    pub layouts: u64,
    pub max_slabs: usize,
    pub depth: usize,
}

/// Breadth-first exploration of one column type. `per_state` is called on every distinct state.
pub fn explore<S: Sut>(
    prop: &str,
    rep: &Report,
    max_seg: usize,
    depth: usize,
    max_len: usize,
    per_state: &(dyn Fn(&S, &[S::V], &[Act<S::V>]) -> Result<(), (String, String)> + Sync),
) -> Stats {
    let dom = S::domain();
    let init = S::new(max_seg);
    let mut seen: HashSet<(Vec<S::V>, Vec<usize>)> = HashSet::new();
    seen.insert((vec![], init.layout()));
    // a state is (column, model, path)
    let mut frontier: Vec<(S, Vec<S::V>, Vec<Act<S::V>>)> = vec![(init, vec![], vec![])];
    let mut st = Stats { states: 1, transitions: 0, layouts: 0, max_slabs: 0, depth: 0 };
    let name = S::name();
    let fail = |oracle: &str, site: String, detail: String, path: &[Act<S::V>]| {
        rep.violation(Violation::new(oracle, site, detail).with_case(json!({
            "engine": "hexane", "type": name, "max_segments": max_seg,
            "path": path.iter().map(|a| format!("{:?}", a)).collect::<Vec<_>>(),
        })));
    };
    if let Some((s, m, p)) = frontier.first() {
        let r = match guard(|| per_state(s, m, p)) {
            Ok(r) => r,
            Err(pn) => Err((format!("panic@{}", pn.location), pn.message)),
        };
        if let Err((site, e)) = r {
            fail(if prop == "C35" { "encoding-round-trip" } else { "column==vec" }, format!("{}:{}", name, site), e, p);
        }
    }
    for d in 0..depth {
        if frontier.is_empty() || rep.saturated() {
            break;
        }
        st.depth = d + 1;
        // the frontier is processed in chunks (expanded in parallel, merged sequentially in frontier
        // order, so the exploration is deterministic) to bound the memory held by undeduplicated successors
        let mut next = vec![];
        for chunk in frontier.chunks(1024) {
            if rep.saturated() {
                break;
            }
            let expanded: Vec<Vec<(S, Vec<S::V>, Vec<Act<S::V>>, Option<(String, String, String)>)>> = chunk
                .par_iter()
                .map(|(col, model, path)| {
                    let mut out = vec![];
                    for a in actions(model.len(), &dom, max_len) {
                        let mut m2 = model.clone();
                        apply_model(&mut m2, &a);
                        let mut c2 = col.clone();
                        let mut p2 = path.clone();
                        p2.push(a.clone());
                        let r = guard(|| c2.apply(&a));
                        match r {
                            Ok(Err(())) => continue,
                            Ok(Ok(())) => {}
                            Err(p) => {
                                out.push((col.clone(), m2, p2, Some(("panic".to_string(), format!("{}:{}", S::name(), p.location), p.message))));
                                continue;
                            }
                        }
                        // cheap per-transition oracle: contents and structural invariants
                        let r = guard(|| {
                            c2.invariants();
                            c2.values()
                        });
                        match r {
                            Ok(v) if v == m2 => out.push((c2, m2, p2, None)),
                            Ok(v) => {
                                let detail = format!("after {:?} the column holds {:?}, a Vec holds {:?}", a, v, m2);
                                out.push((c2, m2, p2, Some(("column==vec".to_string(), format!("{}:{}", S::name(), act_name(&a)), detail))));
                            }
                            Err(p) => out.push((c2, m2, p2, Some(("panic".to_string(), format!("{}:{}", S::name(), p.location), p.message)))),
                        }
                    }
                    out
                })
                .collect();
            let mut fresh = vec![];
            for group in expanded {
                for (c2, m2, p2, err) in group {
                    st.transitions += 1;
                    if let Some((oracle, site, detail)) = err {
                        fail(&oracle, site, detail, &p2);
                        continue;
                    }
                    let key = (m2.clone(), c2.layout());
                    if seen.insert(key) {
                        st.states += 1;
                        st.max_slabs = st.max_slabs.max(c2.layout().len());
                        fresh.push((c2, m2, p2));
                    }
                }
            }
            // the read battery on every new distinct state, in parallel
            let errs: Vec<(usize, (String, String))> = fresh
                .par_iter()
                .enumerate()
                .filter_map(|(i, (c, m, p))| match guard(|| per_state(c, m, p)) {
                    Ok(Ok(())) => None,
                    Ok(Err(e)) => Some((i, e)),
                    Err(pn) => Some((i, (format!("panic@{}", pn.location), pn.message))),
                })
                .collect();
            for (i, (site, detail)) in errs {
                fail(if prop == "C35" { "encoding-round-trip" } else { "column==vec" }, format!("{}:{}", name, site), detail, &fresh[i].2);
            }
            // states at the last level are not expanded: keep only what the next level needs
            if d + 1 < depth {
                next.extend(fresh);
            }
        }
        frontier = next;
    }
    st.layouts = seen.iter().map(|k| k.1.clone()).collect::<HashSet<_>>().len() as u64;
    st
}

fn act_name<V>(a: &Act<V>) -> &'static str {
    match a {
        Act::Insert(..) => "insert",
        Act::Remove(_) => "remove",
        Act::RemoveN(..) => "remove_n",
        Act::Push(_) => "push",
        Act::Splice(..) => "splice",
        Act::SpliceRun(..) => "splice_runs",
        Act::Truncate(_) => "truncate",
        Act::Clear => "clear",
        Act::Pop => "pop",
    }
}

macro_rules! ck {
    ($site:expr, $cond:expr, $($fmt:tt)*) => {
        if !($cond) {
            return Err(format!("{}: {}", $site, format!($($fmt)*)));
        }
    };
}

fn sorted<V: Ord>(s: &[V]) -> bool {
    s.windows(2).all(|w| w[0] <= w[1])
}

// ------------------------------------------------------------------------------------------
// Column<T>

macro_rules! plain_column {
    ($sut:ident, $t:ty, $name:expr, $dom:expr, $own:expr, $arg:expr) => {
        #[derive(Clone)]
        pub struct $sut(hexane::Column<$t>);
        impl Sut for $sut {
            type V = $t;
            fn name() -> String {
                $name.to_string()
            }
            fn new(max_seg: usize) -> Self {
                $sut(hexane::Column::<$t>::with_max_segments(max_seg))
            }
            fn domain() -> Vec<$t> {
                $dom
            }
            fn layout(&self) -> Vec<usize> {
                self.0.slab_lens()
            }
            fn len(&self) -> usize {
                self.0.len()
            }
            fn values(&self) -> Vec<$t> {
                self.0.to_vec().into_iter().map($own).collect()
            }
            fn apply(&mut self, a: &Act<$t>) -> Result<(), ()> {
                match a {
                    Act::Insert(i, v) => self.0.insert(*i, $arg(v)),
                    Act::Remove(i) => self.0.remove(*i),
                    Act::RemoveN(i, n) => self.0.remove_n(*i, *n),
                    Act::Push(v) => self.0.push($arg(v)),
                    Act::Splice(i, d, vs) => self.0.splice(*i, *d, vs.iter().map(|v| $arg(v))),
                    Act::SpliceRun(i, d, v, n) => self.0.splice_runs(*i, *d, std::iter::once(hexane::Run { count: *n, value: $arg(v) })),
                    Act::Truncate(k) => self.0.truncate(*k),
                    Act::Clear => self.0.clear(),
                    Act::Pop => return Err(()),
                }
                Ok(())
            }
            fn invariants(&self) {
                self.0.check_invariants();
            }
            fn save(&self) -> Vec<u8> {
                self.0.save()
            }
            fn load(bytes: &[u8]) -> Result<Self, String> {
                hexane::Column::<$t>::load(bytes).map($sut).map_err(|e| e.to_string())
            }
            fn from_values(v: &[$t]) -> Self {
                $sut(hexane::Column::<$t>::from_values(v.to_vec()))
            }
            fn battery(&self, m: &[$t]) -> Result<(), String> {
                let c = &self.0;
                let n = m.len();
                ck!("len", c.len() == n && c.is_empty() == (n == 0), "len {} is_empty {} for {} items", c.len(), c.is_empty(), n);
                for i in 0..n + 2 {
                    let g = c.get(i).map($own);
                    ck!("get", g.as_ref() == m.get(i), "get({}) = {:?}, Vec has {:?}", i, g, m.get(i));
                }
                let it: Vec<$t> = c.iter().map($own).collect();
                ck!("iter", it == m, "iter() gives {:?}, Vec is {:?}", it, m);
                for a in 0..=n {
                    for b in a..=n {
                        let r: Vec<$t> = c.iter_range(a..b).map($own).collect();
                        ck!("iter_range", r == m[a..b], "iter_range({}..{}) gives {:?}, Vec slice is {:?}", a, b, r, &m[a..b]);
                        // run iteration re-expanded
                        let mut exp: Vec<$t> = vec![];
                        for run in c.iter_range(a..b).runs() {
                            ck!("runs", run.count > 0, "iter_range({}..{}).runs() yields an empty run", a, b);
                            for _ in 0..run.count {
                                exp.push($own(run.value));
                            }
                        }
                        ck!("runs", exp == m[a..b], "iter_range({}..{}).runs() expands to {:?}, Vec slice is {:?}", a, b, exp, &m[a..b]);
                    }
                    // nth / advance_to
                    let mut it = c.iter();
                    let g = it.nth(a).map($own);
                    ck!("iter.nth", g.as_ref() == m.get(a), "iter().nth({}) = {:?}, Vec has {:?}", a, g, m.get(a));
                    let mut it = c.iter();
                    it.advance_to(a);
                    ck!("iter.advance_to", it.pos() == a.min(n), "advance_to({}) leaves pos {}", a, it.pos());
                    let g = it.next().map($own);
                    ck!("iter.advance_to", g.as_ref() == m.get(a), "advance_to({}) then next() = {:?}, Vec has {:?}", a, g, m.get(a));
                }
                for v in Self::domain() {
                    let only = c.is_only($arg(&v));
                    let expect = m.iter().all(|x| *x == v);
                    ck!("is_only", only == expect, "is_only({:?}) = {} on {:?}", v, only, m);
                    // scope_to_value on sorted ranges
                    for a in 0..=n {
                        for b in a..=n {
                            let r = c.scope_to_value($arg(&v), a..b);
                            if sorted(&m[a..b]) {
                                let lo = a + m[a..b].iter().take_while(|x| **x < v).count();
                                let hi = a + m[a..b].iter().take_while(|x| **x <= v).count();
                                ck!("scope_to_value", r == (lo..hi), "scope_to_value({:?}, {}..{}) = {:?}, expected {:?} on {:?}", v, a, b, r, lo..hi, m);
                            } else {
                                ck!("scope_to_value", r.start <= r.end && r.end <= n, "scope_to_value({:?}, {}..{}) = {:?} is not a range of the column", v, a, b, r);
                            }
                        }
                    }
                }
                ck!("validate_encoding", c.validate_encoding().is_ok(), "validate_encoding fails: {:?}", c.validate_encoding());
                let cl = c.clone();
                ck!("clone", cl.to_vec() == c.to_vec() && cl.save() == c.save(), "clone differs");
                Ok(())
            }
        }
    };
}

fn s(x: &str) -> String {
    x.to_string()
}

plain_column!(ColU64, u64, "Column<u64>", vec![0, 1, u64::MAX / 2], |x| x, |v: &u64| *v);
plain_column!(ColI64, i64, "Column<i64>", vec![-1, 0, i64::MAX], |x| x, |v: &i64| *v);
plain_column!(ColU32, u32, "Column<u32>", vec![0, 7, u32::MAX], |x| x, |v: &u32| *v);
plain_column!(ColOptU64, Option<u64>, "Column<Option<u64>>", vec![None, Some(0), Some(300)], |x| x, |v: &Option<u64>| *v);
plain_column!(ColOptI64, Option<i64>, "Column<Option<i64>>", vec![None, Some(-64), Some(64)], |x| x, |v: &Option<i64>| *v);
plain_column!(ColBool, bool, "Column<bool>", vec![false, true], |x| x, |v: &bool| *v);
fn arg_string(v: &String) -> &str {
    v.as_str()
}
fn arg_opt_string(v: &Option<String>) -> Option<&str> {
    v.as_deref()
}
fn arg_bytes(v: &Vec<u8>) -> &[u8] {
    v.as_slice()
}
plain_column!(ColString, String, "Column<String>", vec![s(""), s("a"), s("é😀")], |x: &str| x.to_string(), arg_string);
plain_column!(ColOptString, Option<String>, "Column<Option<String>>", vec![None, Some(s("")), Some(s("ab"))], |x: Option<&str>| x.map(|y| y.to_string()), arg_opt_string);
plain_column!(ColBytes, Vec<u8>, "Column<Vec<u8>>", vec![vec![], vec![0], vec![0xff, 0x80]], |x: &[u8]| x.to_vec(), arg_bytes);

// ------------------------------------------------------------------------------------------
// PrefixColumn<T>

macro_rules! prefix_column {
    ($sut:ident, $t:ty, $name:expr, $dom:expr, $weight:expr, $unsigned:expr) => {
        #[derive(Clone)]
        pub struct $sut(hexane::PrefixColumn<$t>);
        impl Sut for $sut {
            type V = $t;
            fn name() -> String {
                $name.to_string()
            }
            fn new(max_seg: usize) -> Self {
                $sut(hexane::PrefixColumn::<$t>::with_max_segments(max_seg))
            }
            fn domain() -> Vec<$t> {
                $dom
            }
            fn layout(&self) -> Vec<usize> {
                self.0.values().slab_lens()
            }
            fn len(&self) -> usize {
                self.0.len()
            }
            fn values(&self) -> Vec<$t> {
                self.0.to_vec()
            }
            fn apply(&mut self, a: &Act<$t>) -> Result<(), ()> {
                match a {
                    Act::Insert(i, v) => self.0.insert(*i, *v),
                    Act::Remove(i) => self.0.remove(*i),
                    Act::RemoveN(i, n) => self.0.remove_n(*i, *n),
                    Act::Push(v) => self.0.push(*v),
                    Act::Splice(i, d, vs) => self.0.splice(*i, *d, vs.iter().cloned()),
                    Act::SpliceRun(i, d, v, n) => self.0.splice_runs(*i, *d, std::iter::once(hexane::Run { count: *n, value: *v })),
                    Act::Truncate(k) => self.0.truncate(*k),
                    Act::Clear => self.0.clear(),
                    Act::Pop => return Err(()),
                }
                Ok(())
            }
            fn invariants(&self) {
                // PrefixColumn exposes no invariant checker (its slab weight type is not comparable)
            }
            fn save(&self) -> Vec<u8> {
                self.0.save()
            }
            fn load(bytes: &[u8]) -> Result<Self, String> {
                hexane::PrefixColumn::<$t>::load(bytes).map($sut).map_err(|e| e.to_string())
            }
            fn from_values(v: &[$t]) -> Self {
                $sut(hexane::PrefixColumn::<$t>::from_values(v.to_vec()))
            }
            fn battery(&self, m: &[$t]) -> Result<(), String> {
                let c = &self.0;
                let n = m.len();
                let w = $weight;
                let pre = |i: usize| -> i128 { m[..i.min(n)].iter().map(|x| w(x)).sum() };
                ck!("len", c.len() == n && c.is_empty() == (n == 0), "len {} for {} items", c.len(), n);
                ck!("to_vec", c.to_vec() == m, "to_vec {:?} vs {:?}", c.to_vec(), m);
                for i in 0..=n {
                    let g = c.get_prefix(i) as i128;
                    ck!("get_prefix", g == pre(i), "get_prefix({}) = {}, the Vec sums to {} ({:?})", i, g, pre(i), m);
                    if i < n {
                        let g = c.get_total(i) as i128;
                        ck!("get_total", g == pre(i + 1), "get_total({}) = {}, the Vec sums to {} ({:?})", i, g, pre(i + 1), m);
                        let pv = c.get(i);
                        ck!("get", pv.is_some(), "get({}) is None", i);
                        let pv = pv.unwrap();
                        ck!("get", pv.value == m[i] && pv.prefix() as i128 == pre(i) && pv.total() as i128 == pre(i + 1), "get({}) = value {:?} prefix {} total {}, expected {:?} {} {}", i, pv.value, pv.prefix(), pv.total(), m[i], pre(i), pre(i + 1));
                    }
                }
                ck!("get", c.get(n).is_none() && c.get(n + 1).is_none(), "get past the end is Some");
                let items: Vec<($t, i128, i128)> = c.iter().map(|pv| (pv.value, pv.prefix() as i128, pv.total() as i128)).collect();
                let exp: Vec<($t, i128, i128)> = (0..n).map(|i| (m[i], pre(i), pre(i + 1))).collect();
                ck!("iter", items == exp, "iter() gives {:?}, expected {:?}", items, exp);
                for a in 0..=n {
                    for b in a..=n {
                        let g = c.sum_range(a..b) as i128;
                        ck!("sum_range", g == pre(b) - pre(a), "sum_range({}..{}) = {}, expected {} on {:?}", a, b, g, pre(b) - pre(a), m);
                        let items: Vec<($t, i128, i128)> = c.iter_range(a..b).map(|pv| (pv.value, pv.prefix() as i128, pv.total() as i128)).collect();
                        ck!("iter_range", items == exp[a..b], "iter_range({}..{}) gives {:?}, expected {:?}", a, b, items, &exp[a..b]);
                        // delta(from, to)
                        let d = c.delta(a, b);
                        if b < n {
                            ck!("delta", d.is_some(), "delta({}, {}) is None", a, b);
                            let d = d.unwrap();
                            ck!("delta", d.pos == b && d.delta as i128 == pre(b) - pre(a) && d.pv.value == m[b] && d.pv.total() as i128 == pre(b + 1), "delta({}, {}) = pos {} delta {} value {:?} total {}, expected pos {} delta {} value {:?} total {}", a, b, d.pos, d.delta, d.pv.value, d.pv.total(), b, pre(b) - pre(a), m[b], pre(b + 1));
                        } else {
                            ck!("delta", d.is_none(), "delta({}, {}) past the end is Some", a, b);
                        }
                    }
                }
                if $unsigned {
                    let total = pre(n);
                    for t in 0..=(total + 1).min(40) {
                        // first index i with prefix(i) >= t; 0 for t = 0; len+1 beyond the total
                        let expect = if t <= 0 {
                            0
                        } else if t > total {
                            n + 1
                        } else {
                            (0..=n).find(|i| pre(*i) >= t).unwrap()
                        };
                        let g = idx_for_prefix(c, t);
                        ck!("get_index_for_prefix", g == expect, "get_index_for_prefix({}) = {}, expected {} on {:?}", t, g, expect, m);
                        let g2 = idx_for_total(c, t);
                        ck!("get_index_for_total", g2 == expect.saturating_sub(1), "get_index_for_total({}) = {}, expected {} on {:?}", t, g2, expect.saturating_sub(1), m);
                        // advance_prefix(t) from the start: the item containing unit t+1
                        let mut it = c.iter();
                        let sk = adv_prefix(&mut it, t);
                        let expect_item = if t + 1 > total { None } else { (0..n).find(|i| pre(*i + 1) >= t + 1) };
                        ck!("advance_prefix", sk == expect_item, "iter().advance_prefix({}) lands on {:?}, expected {:?} on {:?}", t, sk, expect_item, m);
                    }
                }
                Ok(())
            }
        }
    };
}

trait PrefixOps {
    fn ifp(&self, t: i128) -> usize;
    fn ift(&self, t: i128) -> usize;
}
macro_rules! prefix_ops {
    ($t:ty, $p:ty) => {
        impl PrefixOps for hexane::PrefixColumn<$t> {
            fn ifp(&self, t: i128) -> usize {
                self.get_index_for_prefix(t as $p)
            }
            fn ift(&self, t: i128) -> usize {
                self.get_index_for_total(t as $p)
            }
        }
    };
}
prefix_ops!(u64, u128);
prefix_ops!(u32, u64);
prefix_ops!(bool, usize);
prefix_ops!(Option<u64>, u128);

fn idx_for_prefix<C: PrefixOps>(c: &C, t: i128) -> usize {
    c.ifp(t)
}
fn idx_for_total<C: PrefixOps>(c: &C, t: i128) -> usize {
    c.ift(t)
}

trait AdvPrefix {
    fn adv(&mut self, t: i128) -> Option<usize>;
}
macro_rules! adv_prefix_impl {
    ($t:ty, $p:ty) => {
        impl<'a> AdvPrefix for hexane::prefix::PrefixIter<'a, $t> {
            fn adv(&mut self, t: i128) -> Option<usize> {
                self.advance_prefix(t as $p).map(|s| s.pos)
            }
        }
    };
}
adv_prefix_impl!(u64, u128);
adv_prefix_impl!(u32, u64);
adv_prefix_impl!(bool, usize);
adv_prefix_impl!(Option<u64>, u128);
fn adv_prefix<I: AdvPrefix>(it: &mut I, t: i128) -> Option<usize> {
    it.adv(t)
}

prefix_column!(PreU64, u64, "PrefixColumn<u64>", vec![0, 1, 3], |x: &u64| *x as i128, true);
prefix_column!(PreU32, u32, "PrefixColumn<u32>", vec![0, 1, 2], |x: &u32| *x as i128, true);
prefix_column!(PreBool, bool, "PrefixColumn<bool>", vec![false, true], |x: &bool| *x as i128, true);
prefix_column!(PreOptU64, Option<u64>, "PrefixColumn<Option<u64>>", vec![None, Some(0), Some(2)], |x: &Option<u64>| x.unwrap_or(0) as i128, true);

// ------------------------------------------------------------------------------------------
// DeltaColumn<T>

macro_rules! delta_column {
    ($sut:ident, $t:ty, $name:expr, $dom:expr, $i64:expr) => {
        #[derive(Clone)]
        pub struct $sut(hexane::DeltaColumn<$t>);
        impl Sut for $sut {
            type V = $t;
            fn name() -> String {
                $name.to_string()
            }
            fn new(max_seg: usize) -> Self {
                $sut(hexane::DeltaColumn::<$t>::with_max_segments(max_seg))
            }
            fn domain() -> Vec<$t> {
                $dom
            }
            fn layout(&self) -> Vec<usize> {
                // the inner column is private: slab count + save bytes would not show the cuts,
                // so the layout is the list of slab lengths reported by check/debug accessors
                vec![self.0.slab_count()]
            }
            fn len(&self) -> usize {
                self.0.len()
            }
            fn values(&self) -> Vec<$t> {
                self.0.to_vec()
            }
            fn apply(&mut self, a: &Act<$t>) -> Result<(), ()> {
                match a {
                    Act::Insert(i, v) => self.0.insert(*i, *v),
                    Act::Remove(i) => self.0.remove(*i),
                    Act::RemoveN(i, n) => self.0.remove_n(*i, *n),
                    Act::Push(v) => self.0.push(*v),
                    Act::Splice(i, d, vs) => self.0.splice(*i, *d, vs.iter().cloned()),
                    Act::SpliceRun(..) => return Err(()),
                    Act::Truncate(k) => self.0.truncate(*k),
                    Act::Clear => self.0.clear(),
                    Act::Pop => {
                        self.0.pop();
                    }
                }
                Ok(())
            }
            fn invariants(&self) {
                self.0.check_invariants();
            }
            fn save(&self) -> Vec<u8> {
                self.0.save()
            }
            fn load(bytes: &[u8]) -> Result<Self, String> {
                hexane::DeltaColumn::<$t>::load(bytes).map($sut).map_err(|e| e.to_string())
            }
            fn from_values(v: &[$t]) -> Self {
                $sut(hexane::DeltaColumn::<$t>::from_values(v.to_vec()))
            }
            fn battery(&self, m: &[$t]) -> Result<(), String> {
                let c = &self.0;
                let n = m.len();
                ck!("len", c.len() == n && c.is_empty() == (n == 0), "len {} for {} items", c.len(), n);
                for i in 0..n + 2 {
                    ck!("get", c.get(i) == m.get(i).cloned(), "get({}) = {:?}, Vec has {:?}", i, c.get(i), m.get(i));
                }
                ck!("first/last", c.first() == m.first().cloned() && c.last() == m.last().cloned(), "first {:?} last {:?} on {:?}", c.first(), c.last(), m);
                let it: Vec<$t> = c.iter().collect();
                ck!("iter", it == m, "iter() gives {:?}, Vec is {:?}", it, m);
                for a in 0..=n {
                    for b in a..=n {
                        let r: Vec<$t> = c.iter_range(a..b).collect();
                        ck!("iter_range", r == m[a..b], "iter_range({}..{}) gives {:?}, Vec slice is {:?}", a, b, r, &m[a..b]);
                    }
                    let mut it = c.iter();
                    let g = it.nth(a);
                    ck!("iter.nth", g == m.get(a).cloned(), "iter().nth({}) = {:?}, Vec has {:?}", a, g, m.get(a));
                    let mut it = c.iter();
                    it.advance_to(a);
                    let g = it.next();
                    ck!("iter.advance_to", g == m.get(a).cloned(), "advance_to({}) then next() = {:?}, Vec has {:?}", a, g, m.get(a));
                }
                let to_i = $i64;
                let mut probes: Vec<$t> = Self::domain();
                probes.extend(m.iter().cloned());
                probes.sort();
                probes.dedup();
                for v in probes.iter() {
                    // a null is not a value: find_by_value documents an empty result for it
                    if to_i(v).is_none() {
                        ck!("find_by_value", c.find_by_value(*v).count() == 0, "find_by_value({:?}) is not empty", v);
                        continue;
                    }
                    let found: Vec<usize> = c.find_by_value(*v).collect();
                    let expect: Vec<usize> = (0..n).filter(|i| m[*i] == *v).collect();
                    ck!("find_by_value", found == expect, "find_by_value({:?}) = {:?}, expected {:?} on {:?}", v, found, expect, m);
                    ck!("find_first", c.find_first(*v) == expect.first().cloned(), "find_first({:?}) = {:?}, expected {:?}", v, c.find_first(*v), expect.first());
                    for a in 0..=n {
                        for b in a..=n {
                            let r = c.scope_to_value(*v, a..b);
                            if sorted(&m[a..b]) {
                                let lo = a + m[a..b].iter().take_while(|x| **x < *v).count();
                                let hi = a + m[a..b].iter().take_while(|x| **x <= *v).count();
                                ck!("scope_to_value", r == (lo..hi), "scope_to_value({:?}, {}..{}) = {:?}, expected {:?} on {:?}", v, a, b, r, lo..hi, m);
                            } else {
                                ck!("scope_to_value", r.start <= r.end && r.end <= n, "scope_to_value({:?}, {}..{}) = {:?} is not a range of the column", v, a, b, r);
                            }
                        }
                    }
                }
                // find_by_range over every pair of probe values that converts to i64
                let ivals: Vec<i64> = probes.iter().filter_map(|v| to_i(v)).collect();
                for lo in ivals.iter() {
                    for hi in ivals.iter() {
                        if lo >= hi {
                            continue;
                        }
                        let found: Vec<usize> = c.find_by_range(*lo..*hi).collect();
                        let expect: Vec<usize> = (0..n).filter(|i| to_i(&m[*i]).map(|x| x >= *lo && x < *hi).unwrap_or(false)).collect();
                        ck!("find_by_range", found == expect, "find_by_range({}..{}) = {:?}, expected {:?} on {:?}", lo, hi, found, expect, m);
                    }
                }
                let cl = c.clone();
                ck!("clone", cl.to_vec() == c.to_vec() && cl.save() == c.save(), "clone differs");
                Ok(())
            }
        }
    };
}

delta_column!(DelU32, u32, "DeltaColumn<u32>", vec![0, 1, 2, 9], |x: &u32| Some(*x as i64));
delta_column!(DelU64, u64, "DeltaColumn<u64>", vec![0, 1, 2, i64::MAX as u64], |x: &u64| i64::try_from(*x).ok());
delta_column!(DelI64, i64, "DeltaColumn<i64>", vec![-1, 0, 1, 5], |x: &i64| Some(*x));
delta_column!(DelOptI64, Option<i64>, "DeltaColumn<Option<i64>>", vec![None, Some(0), Some(1), Some(-3)], |x: &Option<i64>| *x);
delta_column!(DelOptU32, Option<u32>, "DeltaColumn<Option<u32>>", vec![None, Some(1), Some(2), Some(3)], |x: &Option<u32>| x.map(|y| y as i64));

// ------------------------------------------------------------------------------------------
// RawColumn: the model is a list of blobs; edits happen at blob boundaries

#[derive(Clone)]
pub struct Raw(hexane::raw::RawColumn, Vec<usize>);

impl Raw {
    fn off(&self, i: usize) -> usize {
        self.1[..i].iter().sum()
    }
}

impl Sut for Raw {
    type V = Vec<u8>;
    fn name() -> String {
        "RawColumn".into()
    }
    fn new(max_seg: usize) -> Self {
        Raw(hexane::raw::RawColumn::with_max_segments(max_seg), vec![])
    }
    fn domain() -> Vec<Vec<u8>> {
        vec![vec![1], vec![2, 3], vec![4, 5, 6, 7, 8]]
    }
    fn layout(&self) -> Vec<usize> {
        // which blob ranges can be read in one piece is the observable part of the layout
        let n = self.1.len();
        let mut v = vec![];
        for a in 0..n {
            for b in a + 1..=n {
                if self.0.try_get(self.off(a)..self.off(b)).is_ok() {
                    v.push(a * 64 + b);
                }
            }
        }
        v
    }
    fn len(&self) -> usize {
        self.0.len()
    }
    fn values(&self) -> Vec<Vec<u8>> {
        let all = self.0.save();
        let mut out = vec![];
        let mut at = 0;
        for l in self.1.iter() {
            out.push(all[at.min(all.len())..(at + l).min(all.len())].to_vec());
            at += l;
        }
        if at != all.len() {
            out.push(all[at.min(all.len())..].to_vec());
        }
        out
    }
    fn apply(&mut self, a: &Act<Vec<u8>>) -> Result<(), ()> {
        let n = self.1.len();
        match a {
            Act::Insert(i, v) => {
                self.0.splice_slice(self.off(*i), 0, v);
                self.1.insert(*i, v.len());
            }
            Act::Push(v) => {
                self.0.splice(self.off(n), 0, [v.as_slice()]);
                self.1.push(v.len());
            }
            Act::Remove(i) => {
                self.0.splice_slice(self.off(*i), self.1[*i], &[]);
                self.1.remove(*i);
            }
            Act::RemoveN(i, k) => {
                let d: usize = self.1[*i..*i + *k].iter().sum();
                self.0.splice::<[&[u8]; 0], &[u8]>(self.off(*i), d, []);
                self.1.drain(*i..*i + *k);
            }
            Act::Splice(i, d, vs) => {
                let del: usize = self.1[*i..*i + *d].iter().sum();
                self.0.splice(self.off(*i), del, vs.iter().map(|v| v.as_slice()));
                self.1.splice(*i..*i + *d, vs.iter().map(|v| v.len()));
            }
            Act::Truncate(k) => {
                if *k < n {
                    let d: usize = self.1[*k..].iter().sum();
                    self.0.splice_slice(self.off(*k), d, &[]);
                    self.1.truncate(*k);
                }
            }
            Act::Clear => {
                let d = self.0.len();
                self.0.splice_slice(0, d, &[]);
                self.1.clear();
            }
            Act::SpliceRun(..) | Act::Pop => return Err(()),
        }
        Ok(())
    }
    fn invariants(&self) {}
    fn save(&self) -> Vec<u8> {
        self.0.save()
    }
    fn load(bytes: &[u8]) -> Result<Self, String> {
        hexane::raw::RawColumn::load(bytes).map(|c| Raw(c, vec![bytes.len()])).map_err(|e| e.to_string())
    }
    fn from_values(v: &[Vec<u8>]) -> Self {
        let mut c = hexane::raw::RawColumn::new();
        c.splice(0, 0, v.iter().map(|x| x.as_slice()));
        Raw(c, v.iter().map(|x| x.len()).collect())
    }
    fn battery(&self, m: &[Vec<u8>]) -> Result<(), String> {
        let c = &self.0;
        let total: usize = m.iter().map(|b| b.len()).sum();
        ck!("len", c.len() == total && c.is_empty() == (total == 0), "len {} for {} bytes", c.len(), total);
        let flat: Vec<u8> = m.iter().flatten().cloned().collect();
        ck!("save", c.save() == flat, "save() gives {:?}, expected {:?}", c.save(), flat);
        let mut at = 0;
        for (i, b) in m.iter().enumerate() {
            // a value spliced in as a unit never crosses a slab
            let g = c.try_get(at..at + b.len());
            ck!("get", g.as_ref().ok().map(|x| x.to_vec()) == Some(b.clone()), "get of blob {} ({}..{}) = {:?}, expected {:?}", i, at, at + b.len(), g, b);
            let mut it = c.iter_at(at);
            ck!("iter_at", it.pos() == at, "iter_at({}).pos() = {}", at, it.pos());
            let t = it.take(b.len()).to_vec();
            ck!("iter_at.take", t == *b, "iter_at({}).take({}) = {:?}, expected {:?}", at, b.len(), t, b);
            at += b.len();
        }
        // sequential reader over all blobs, and skip / seek_to
        let mut it = c.iter();
        for (i, b) in m.iter().enumerate() {
            let t = it.take(b.len()).to_vec();
            ck!("iter.take", t == *b, "sequential take of blob {} = {:?}, expected {:?}", i, t, b);
        }
        let mut at = 0;
        for (i, b) in m.iter().enumerate() {
            let mut it = c.iter();
            it.skip(at);
            let t = it.take(b.len()).to_vec();
            ck!("iter.skip", t == *b, "skip({}) then take of blob {} = {:?}, expected {:?}", at, i, t, b);
            let mut it = c.iter();
            it.seek_to(at);
            let t = it.take(b.len()).to_vec();
            ck!("iter.seek_to", t == *b, "seek_to({}) then take of blob {} = {:?}, expected {:?}", at, i, t, b);
            at += b.len();
        }
        ck!("try_get", c.try_get(0..total + 1).is_err(), "try_get past the end is Ok");
        Ok(())
    }
}

// ------------------------------------------------------------------------------------------

pub struct TypeResult {
    pub name: String,
    pub max_seg: usize,
    pub stats: Stats,
}

macro_rules! run_types {
    ($prop:expr, $rep:expr, $cfgs:expr, $per:ident, [$($t:ty),*]) => {{
        let mut jobs: Vec<(String, Box<dyn Fn() -> Vec<TypeResult> + Send + Sync>)> = vec![];
        $(
            {
                let cfgs = $cfgs.clone();
                let rep: &Report = $rep;
                let prop: &str = $prop;
                jobs.push((<$t as Sut>::name(), Box::new(move || {
                    cfgs.iter().map(|(ms, depth, max_len)| {
                        let stats = explore::<$t>(prop, rep, *ms, *depth, *max_len, &$per::<$t>);
                        TypeResult { name: <$t as Sut>::name(), max_seg: *ms, stats }
                    }).collect()
                })));
            }
        )*
        jobs
    }};
}

fn c34_state<S: Sut>(c: &S, m: &[S::V], _p: &[Act<S::V>]) -> Result<(), (String, String)> {
    c.battery(m).map_err(|e| {
        let site = e.split(':').next().unwrap_or("?").to_string();
        (site, e)
    })
}

/// C35 part 1: every explorer state round-trips through its encoding and saves canonically
fn c35_state<S: Sut>(c: &S, m: &[S::V], _p: &[Act<S::V>]) -> Result<(), (String, String)> {
    let bytes = c.save();
    let l = S::load(&bytes).map_err(|e| ("load(save)".to_string(), format!("load(save(c)) fails with {} for {:?} (bytes {:?})", e, m, bytes)))?;
    if S::name() != "RawColumn" {
        let lv = l.values();
        if lv != m {
            return Err(("load(save)".into(), format!("load(save(c)) holds {:?}, c holds {:?} (bytes {:?})", lv, m, bytes)));
        }
        l.invariants();
    }
    let again = l.save();
    if again != bytes {
        return Err(("save(load(save))".into(), format!("save(load(save(c))) = {:?} differs from save(c) = {:?} for {:?}", again, bytes, m)));
    }
    // the encoding does not depend on the edit history: a column built from the values saves the same
    let fresh = S::from_values(m).save();
    if fresh != bytes {
        return Err(("canonical".into(), format!("save(c) = {:?} but a column built from the same values saves {:?} (values {:?}, slabs {:?})", bytes, fresh, m, c.layout())));
    }
    // the loaded column behaves like the Vec too
    if S::name() != "RawColumn" {
        l.battery(m).map_err(|e| ("loaded:".to_string() + e.split(':').next().unwrap_or("?"), format!("after load(save(c)): {}", e)))?;
    }
    Ok(())
}

fn configs(args: &Args) -> Vec<(usize, usize, usize)> {
    // (max_segments, depth, max_len)
    if args.tier == "thorough" {
        vec![(2, 4, 7), (3, 4, 8), (4, 4, 9), (8, 4, 10)]
    } else {
        vec![(2, 3, 6), (4, 3, 8)]
    }
}

fn finish_report(rep: &Report, results: Vec<TypeResult>) {
    let mut per_type = serde_json::Map::new();
    let mut nontrivial = 0u64;
    for r in results {
        rep.count("states", r.stats.states);
        rep.count("transitions", r.stats.transitions);
        if r.stats.max_slabs > 1 || r.name == "RawColumn" {
            nontrivial += 1;
        }
        per_type.insert(
            format!("{} max_segments={}", r.name, r.max_seg),
            json!({"states": r.stats.states, "transitions": r.stats.transitions, "distinct_slab_layouts": r.stats.layouts, "max_slabs": r.stats.max_slabs, "depth": r.stats.depth}),
        );
    }
    rep.count("distinct_nontrivial", nontrivial);
    rep.set("per_type", serde_json::Value::Object(per_type));
}

pub fn run_c34(args: &Args) -> i32 {
    run(args, "C34")
}

pub fn run_c35(args: &Args) -> i32 {
    run(args, "C35")
}

fn run(args: &Args, prop: &str) -> i32 {
    let replay_type: Option<(String, usize)> = args.opt("--replay").map(|p| {
        let j = crate::report::read_replay(std::path::Path::new(&p));
        (j["case"]["type"].as_str().unwrap_or("").to_string(), j["case"]["max_segments"].as_u64().unwrap_or(2) as usize)
    });
    let rep = new_report(prop, args, "model_checking");
    let mut cfgs = configs(args);
    if let Some((_, ms)) = &replay_type {
        cfgs.retain(|c| c.0 == *ms);
        if cfgs.is_empty() {
            cfgs = vec![(*ms, 3, 8)];
        }
    }
    let jobs = if prop == "C34" {
        run_types!(prop, &rep, cfgs, c34_state, [ColU64, ColI64, ColU32, ColOptU64, ColOptI64, ColBool, ColString, ColOptString, ColBytes, PreU64, PreU32, PreBool, PreOptU64, DelU32, DelU64, DelI64, DelOptI64, DelOptU32, Raw])
    } else {
        run_types!(prop, &rep, cfgs, c35_state, [ColU64, ColI64, ColU32, ColOptU64, ColOptI64, ColBool, ColString, ColOptString, ColBytes, PreU64, PreU32, PreBool, PreOptU64, DelU32, DelU64, DelI64, DelOptI64, DelOptU32, Raw])
    };
    // a replay re-runs the (deterministic) exploration of the one type and configuration
    let results: Vec<TypeResult> = jobs
        .iter()
        .filter(|(n, _)| replay_type.as_ref().map(|(t, _)| t == n).unwrap_or(true))
        .flat_map(|(_, j)| j())
        .collect();
    finish_report(&rep, results);
    if prop == "C35" && replay_type.as_ref().map(|(t, _)| t.is_empty()).unwrap_or(true) {
        super::c35::mutations(args, &rep);
    }
    if let Some((t, _)) = &replay_type {
        println!("replayed the exploration of {}", t);
    }
    let (rule, assumptions): (&str, Vec<&str>) = if prop == "C34" {
        (
            "for each of 19 column types (Column<T> for 9 value types, PrefixColumn<T> for 4, DeltaColumn<T> for 5, RawColumn) and each max_segments setting: breadth-first over ALL edit sequences up to the depth bound from the empty column with insert / push (every index x every domain value), remove, remove_n, splice (every index, delete counts {0,1,2,rest}, 12+ inserted lists), splice_runs (runs of 3 and 5), truncate, clear, pop; states deduplicated on (contents, slab lengths); every transition: contents == the same edit on a Vec and check_invariants; every distinct state: get at every index (+2 past the end), iter, iter_range for every a<=b, runs re-expanded, nth, advance_to, is_only, scope_to_value on every sorted sub-range, validate_encoding, clone; prefix columns: get_prefix / get_total / get / iter prefix+total / sum_range / delta for all arguments, get_index_for_prefix / get_index_for_total / advance_prefix for every target up to total+1; delta columns: find_by_value / find_first / find_by_range for all probe values, first / last / pop; raw column: save, get / iter_at / take / skip / seek_to of every blob",
            vec!["value domains of 2-4 values per type incl. extremes of the documented domain (u64 up to i64::MAX for delta)", "column length capped per configuration (max_len) so that the space is finite", "DeltaColumn's slab lengths are not observable: its key uses the slab count"],
        )
    } else {
        (
            "every state of the C34 explorer (same alphabet, bounds and types): load(save(c)) succeeds, holds the same values, passes check_invariants and the whole C34 read battery; save(load(save(c))) == save(c); save(c) equals the bytes of a column built from the same values (the encoding is canonical, independent of the edit history and slab layout). Mutations: see per_family counters",
            vec!["value domains and bounds of C34"],
        )
    };
    let exhaustive = !rep.saturated();
    rep.finish(rule, &assumptions, exhaustive)
}
