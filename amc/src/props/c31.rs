//! C31 — anonymisation preserves document shape.

use super::docpool::{run_pool, DocInfo, PoolCfg};
use super::Args;
use crate::graph::Graph;
use crate::obs::{hstr, observe, ONode, OVal, Obs};
use crate::report::{Report, Violation};
use automerge::{Automerge, ChangeHash, ReadDoc};
use std::collections::BTreeMap;
use std::sync::Arc;

fn val_shape(o: &Obs, v: &OVal) -> String {
    if v.v.starts_with('<') {
        return shape_of(o, &v.id);
    }
    // scalar: type tag, plus encoded lengths for strings and bytes
    if let Some(rest) = v.v.strip_prefix("Str(") {
        let inner = &rest[..rest.len() - 1];
        let s: String = crate::view::unescape_debug(inner);
        return format!("Str[{}u8,{}u16]", s.len(), s.encode_utf16().count());
    }
    if v.v.starts_with("Bytes(") {
        let n = v.v.matches(',').count() + if v.v.contains('[') && !v.v.contains("[]") { 1 } else { 0 };
        return format!("Bytes[{}]", n);
    }
    v.v.split('(').next().unwrap_or("?").to_string()
}

fn shape_of(o: &Obs, id: &str) -> String {
    match o.objs.get(id) {
        Some(ONode::Map(m)) | Some(ONode::Table(m)) => {
            let mut entries: Vec<String> = m.iter().map(|(k, vs)| format!("k{}:{}", k.len(), vs.iter().map(|v| val_shape(o, v)).collect::<Vec<_>>().join("|"))).collect();
            entries.sort();
            format!("{{{}}}", entries.join(","))
        }
        Some(ONode::List(l)) => format!("[{}]", l.iter().map(|vs| vs.iter().map(|v| val_shape(o, v)).collect::<Vec<_>>().join("|")).collect::<Vec<_>>().join(",")),
        Some(ONode::Text(t)) => {
            let elems: Vec<String> = t
                .elems
                .iter()
                .map(|(start, vs)| {
                    let marks = t.unit_marks.get(*start).map(|m| {
                        let mut l: Vec<usize> = m.keys().map(|k| k.len()).collect();
                        l.sort();
                        format!("{:?}", l)
                    });
                    format!("{}{}", vs.iter().map(|v| val_shape(o, v)).collect::<Vec<_>>().join("|"), marks.unwrap_or_default())
                })
                .collect();
            format!("T(len {}, {}u8, {}u16)[{}]", t.len, t.text.len(), t.text.encode_utf16().count(), elems.join(","))
        }
        Some(ONode::Err(e)) => format!("ERR {}", e),
        None => "MISSING".into(),
    }
}

pub fn shape(d: &Automerge, heads: Option<&[ChangeHash]>) -> String {
    let o = observe(d, heads, &[]);
    shape_of(&o, "_root")
}

fn check(d: &Automerge, info: &DocInfo, rep: &Report, cap: usize) -> Result<(), Violation> {
    let nseeds: u8 = if rep.tier == "thorough" { 48 } else { 4 };
    for seed in (0..nseeds).map(|i| [i.wrapping_mul(37).wrapping_add(3); 32]) {
        let an = automerge::anonymize::anonymize_with_seed(d, seed).map_err(|e| Violation::new("anonymize-ok", "Err", format!("{:?}", e)))?;
        let (oc, ac) = (d.get_changes(&[]), an.get_changes(&[]));
        if oc.len() != ac.len() {
            return Err(Violation::new("change-graph-isomorphic", "count", format!("{} changes became {}", oc.len(), ac.len())));
        }
        // the bijection: i-th change <-> i-th change (anonymize replays get_changes order); verify it
        // is consistent on every structural attribute
        let map: BTreeMap<ChangeHash, ChangeHash> = oc.iter().zip(ac.iter()).map(|(a, b)| (a.hash(), b.hash())).collect();
        let mut actor_map: BTreeMap<Vec<u8>, Vec<u8>> = BTreeMap::new();
        for (a, b) in oc.iter().zip(ac.iter()) {
            if a.seq() != b.seq() || a.start_op() != b.start_op() || a.len() != b.len() || a.max_op() != b.max_op() {
                return Err(Violation::new(
                    "change-graph-isomorphic",
                    "change-attributes",
                    format!("change {}: seq {} start_op {} ops {} became seq {} start_op {} ops {}", a.hash(), a.seq(), a.start_op(), a.len(), b.seq(), b.start_op(), b.len()),
                ));
            }
            let mut da: Vec<ChangeHash> = a.deps().iter().map(|h| map[h]).collect();
            let mut db = b.deps().to_vec();
            da.sort();
            db.sort();
            if da != db {
                return Err(Violation::new("change-graph-isomorphic", "deps", format!("change {}: deps do not map", a.hash())));
            }
            let (ka, kb) = (a.actor_id().to_bytes().to_vec(), b.actor_id().to_bytes().to_vec());
            if let Some(prev) = actor_map.insert(ka.clone(), kb.clone()) {
                if prev != kb {
                    return Err(Violation::new("change-graph-isomorphic", "actors", "one actor mapped to two"));
                }
            }
            // op kinds per change
            let (ea, eb) = (a.decode(), b.decode());
            for (x, y) in ea.operations.iter().zip(eb.operations.iter()) {
                if std::mem::discriminant(&x.action) != std::mem::discriminant(&y.action) || x.insert != y.insert || x.pred.len() != y.pred.len() {
                    return Err(Violation::new("change-graph-isomorphic", "op-kinds", format!("change {}: {:?} became {:?}", a.hash(), x.action, y.action)));
                }
            }
        }
        // actor order is preserved (conflict winners depend on it)
        let ranks = |m: Vec<&Vec<u8>>| -> Vec<usize> {
            let mut s = m.clone();
            s.sort();
            m.iter().map(|x| s.iter().position(|y| y == x).unwrap()).collect()
        };
        if ranks(actor_map.keys().collect()) != ranks(actor_map.values().collect()) {
            return Err(Violation::new("change-graph-isomorphic", "actor-order", "actor sort order changed"));
        }
        if hstr(&d.get_heads().iter().map(|h| map[h]).collect::<Vec<_>>()) != hstr(&an.get_heads()) {
            return Err(Violation::new("change-graph-isomorphic", "heads", "heads do not map"));
        }
        // same shape now and at every consistent cut
        let (s1, s2) = (shape(d, None), shape(&an, None));
        if s1 != s2 {
            return Err(Violation::new("shape-preserved", "current", format!("seed {:?}\noriginal  {}\nanonymised {}", seed[0], s1, s2)));
        }
        let g = Graph::new(oc.clone());
        for h in g.head_sets_above(&info.base_hashes, cap) {
            let h2: Vec<ChangeHash> = h.iter().map(|x| map[x]).collect();
            let (s1, s2) = (shape(d, Some(&h)), shape(&an, Some(&h2)));
            if s1 != s2 {
                return Err(Violation::new("shape-preserved", "historical", format!("at {:?}:\noriginal  {}\nanonymised {}", hstr(&h), s1, s2)));
            }
            rep.count("shapes_compared", 1);
        }
        // saves and reloads cleanly
        let l = Automerge::load(&an.save()).map_err(|e| Violation::new("anonymised-reloads", "Err", format!("{:?}", e)))?;
        if shape(&l, None) != s2 || hstr(&l.get_heads()) != hstr(&an.get_heads()) {
            return Err(Violation::new("anonymised-reloads", "differs", "anonymised document differs after save/load"));
        }
        // nothing of the original content survives in string positions (best effort of the API, checked loosely):
        // not asserted; the property is about shape.
    }
    // the public entry point (fresh random seed) works too
    // the public entry point (fresh random seed) must at least succeed; its shape is not part of the
    // verdict because a failure could not be replayed (the seeds above are the replayable ones)
    d.anonymize().map_err(|e| Violation::new("anonymize-ok", "random-seed", format!("{:?}", e)))?;
    Ok(())
}

pub fn run(args: &Args) -> i32 {
    let cap = if args.thorough() { 16 } else { 4 };
    let oracle = move |d: &Automerge, info: &DocInfo, rep: &Report| check(d, info, rep, cap);
    run_pool(
        "C31",
        args,
        "model_checking",
        PoolCfg { quick_scale: 0, thorough_scale: 1, ..Default::default() },
        Arc::new(oracle),
        "every distinct document reached by the history explorer (replicas and merges; text, marks, counters, conflicts, nested objects) anonymised with 4 (quick) / 48 (thorough) fixed seeds through the hook anonymize_with_seed (and once through the public random-seed entry point, which must succeed): change i <-> change i is a graph isomorphism (seq, start_op, op count, max_op, deps under the map, op kinds, insert flags, pred counts, a consistent actor map that preserves actor order, heads map); the id-free shape (object types, key byte lengths, conflict lists with scalar types and string/byte lengths, sequence lengths, per-element UTF-8/UTF-16 widths, number and name lengths of marks per element) is equal now and at every consistent cut; the anonymised document saves and reloads to the same shape and heads",
        &["hook: anonymize_with_seed (cfg automerge_verif) for replayable seeds; the verdict does not depend on the seed"],
    )
}
