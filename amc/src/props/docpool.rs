//! Shared driver: run a per-document oracle over every distinct document the history explorer
//! reaches (replicas, pairwise merges, and documents holding queued out-of-order changes).

use super::{new_report, run_models, Args};
use crate::deliver::new_changes;
use crate::explore::Limits;
use crate::obs::hstr;
use crate::report::{Report, Violation};
use crate::world::{actor, base, History, World};
use automerge::{Automerge, ChangeHash, ReadDoc, TextEncoding};
use std::collections::{BTreeSet, HashSet};
use std::sync::{Arc, Mutex};

pub struct DocInfo {
    pub enc: TextEncoding,
    pub base_hashes: BTreeSet<ChangeHash>,
    pub theme: String,
    pub kind: &'static str,
    /// the base document is large (B3): oracles use cheaper reads
    pub big: bool,
}

pub type DocOracle = dyn Fn(&Automerge, &DocInfo, &Report) -> Result<(), Violation> + Send + Sync;

pub struct PoolCfg {
    pub quick_scale: u8,
    pub thorough_scale: u8,
    pub merged: bool,
    pub orphans: bool,
    pub encodings: Vec<TextEncoding>,
    pub quick_wall: f64,
    pub extra_bases: Vec<&'static str>,
    /// explicit (edit budgets, merges) for every theme x base instead of the shared scale table
    pub budgets: Option<(Vec<u8>, u8)>,
}

impl Default for PoolCfg {
    fn default() -> Self {
        PoolCfg {
            quick_scale: 1,
            thorough_scale: 2,
            merged: true,
            orphans: false,
            encodings: vec![TextEncoding::UnicodeCodePoint],
            quick_wall: 45.0,
            extra_bases: vec![],
            budgets: None,
        }
    }
}

fn doc_id(d: &Automerge) -> Vec<String> {
    let mut v = hstr(&d.get_heads());
    v.push("|".into());
    v.extend(hstr(&d.get_missing_deps(&[])));
    v.push(hex::encode(d.get_actor().to_bytes()));
    v
}

pub fn run_pool(prop: &str, args: &Args, level: &str, cfg: PoolCfg, oracle: Arc<DocOracle>, rule: &str, assumptions: &[&str]) -> i32 {
    let rep = Arc::new(new_report(prop, args, level));
    let mut models = vec![];
    let scale = if args.thorough() { cfg.thorough_scale } else { cfg.quick_scale };
    let mut cfgs = super::history_configs(scale);
    if let Some((edits, merges)) = &cfg.budgets {
        for c in cfgs.iter_mut() {
            c.2 = edits.clone();
            c.3 = *merges;
        }
        cfgs.dedup();
    }
    for b in cfg.extra_bases.iter() {
        for theme in ["map", "text"] {
            cfgs.push((theme, b, vec![1, 1], 1));
        }
    }
    for enc in cfg.encodings.iter().cloned() {
        for (theme, bname, edits, merges) in cfgs.iter().cloned() {
            // only text-bearing themes depend on the encoding
            if enc != TextEncoding::UnicodeCodePoint && !matches!(theme, "text" | "marks") {
                continue;
            }
            let mut h = History::new(theme, bname, enc, &edits, merges);
            let b = base(bname, enc);
            let base_hashes: BTreeSet<ChangeHash> = b.get_changes(&[]).iter().map(|c| c.hash()).collect();
            let seen: Mutex<HashSet<Vec<String>>> = Mutex::new(HashSet::new());
            let rep2: Arc<Report> = rep.clone();
            let oracle = oracle.clone();
            let merged = cfg.merged;
            let orphans = cfg.orphans;
            let theme_s = theme.to_string();
            let big = bname == "B3";
            h.state_oracle = Some(Box::new(move |w: &World| {
                let mk = |kind: &'static str| DocInfo {
                    enc,
                    base_hashes: base_hashes.clone(),
                    theme: theme_s.clone(),
                    kind,
                    big,
                };
                let fresh = |d: &Automerge| seen.lock().unwrap().insert(doc_id(d)) || crate::util::replaying();
                for d in w.docs.iter() {
                    if fresh(d) {
                        oracle(d, &mk("replica"), &rep2)?;
                        rep2.count("documents_checked", 1);
                        rep2.count("evaluations", 1);
                    }
                }
                if merged {
                    for i in 0..w.docs.len() {
                        for j in (i + 1)..w.docs.len() {
                            let mut a = w.docs[i].clone();
                            a.merge(&mut w.docs[j].clone())
                                .map_err(|e| Violation::new("merge-ok", "merge Err", format!("{:?}", e)))?;
                            if fresh(&a) {
                                oracle(&a, &mk("merged"), &rep2)?;
                                rep2.count("documents_checked", 1);
                                rep2.count("evaluations", 1);
                            }
                        }
                    }
                }
                if orphans {
                    // documents holding queued changes: deliver only the changes that have a new
                    // parent (their parent is withheld), one document per withheld prefix
                    let new = new_changes(&base_hashes, &w.docs);
                    for skip in 0..new.len() {
                        let mut d = b.fork().with_actor(actor(crate::deliver::RECEIVER_ACTOR));
                        let rest: Vec<_> = new.iter().enumerate().filter(|(i, _)| *i != skip).map(|(_, c)| c.clone()).collect();
                        d.apply_changes(rest)
                            .map_err(|e| Violation::new("apply-ok", "apply_changes Err", format!("{:?}", e)))?;
                        if d.get_missing_deps(&[]).is_empty() {
                            continue;
                        }
                        if fresh(&d) {
                            oracle(&d, &mk("with-orphans"), &rep2)?;
                            rep2.count("documents_checked", 1);
                            rep2.count("documents_with_orphans", 1);
                            rep2.count("evaluations", 1);
                        }
                    }
                }
                Ok(())
            }));
            models.push((h.label(theme), h));
        }
    }
    let lim = Limits {
        max_wall_s: if args.thorough() { 1700.0 } else { cfg.quick_wall },
        ..Default::default()
    };
    let ex = run_models(&rep, args, models, &lim).unwrap_or(false);
    rep.finish(rule, assumptions, ex)
}
