//! C07 — historical reads equal reads of the document as it was.

use super::{new_report, run_models, Args};
use crate::explore::Limits;
use crate::graph::Graph;
use crate::obs::{extras, hstr, observe};
use crate::refmodel::{compare, CompareOpts, RefDoc};
use crate::report::{Report, Violation};
use crate::world::{base, obs_of, History, World};
use automerge::{Automerge, ChangeHash, TextEncoding};
use std::collections::{BTreeSet, HashSet};
use std::sync::{Arc, Mutex};

/// all C07 oracles for one document and one head set
pub fn check_at(d: &Automerge, g: &Graph, h: &[ChangeHash], enc: TextEncoding) -> Result<(), Violation> {
    let hs = hstr(h);
    let f = d
        .fork_at(h)
        .map_err(|e| Violation::new("fork_at-ok", "fork_at Err on heads from the history", format!("{:?} heads {:?}", e, hs)))?;
    if hstr(&f.get_heads()) != hs {
        return Err(Violation::new(
            "fork_at-heads",
            "heads",
            format!("fork_at({:?}).get_heads() = {:?}", hs, hstr(&f.get_heads())),
        ));
    }
    // the fork holds exactly the ancestors
    let anc = g.ancestors(h);
    let fh: BTreeSet<ChangeHash> = f.get_changes(&[]).iter().map(|c| c.hash()).collect();
    if fh != anc {
        return Err(Violation::new(
            "fork_at-changes",
            "change set",
            format!("fork_at({:?}) holds {} changes, ancestors are {}", hs, fh.len(), anc.len()),
        ));
    }
    let of = obs_of(&f);
    // and shows what the reference predicts for the ancestors
    let ex: Vec<_> = g.changes_of(&anc).iter().map(|c| c.decode()).collect();
    let r = RefDoc::new(&ex, enc);
    if r.unsupported.is_none() {
        if let Some((site, detail)) = compare(&of, &r.observe(hs.clone()), enc, &CompareOpts { marks: true }) {
            return Err(Violation::new("fork_at==ref", site, detail));
        }
    }
    // every read at H on D equals the plain read on F
    let oat = observe(d, Some(h), &d.get_heads());
    if let Some(diff) = oat.diff(&of) {
        return Err(Violation::new("reads_at==fork", "observe", format!("at {:?}: {}", hs, diff)));
    }
    let ea = extras(d, Some(h));
    let ef = extras(&f, None);
    if ea != ef {
        for (k, v) in ea.iter() {
            if ef.get(k) != Some(v) {
                let site = k.split(' ').nth(1).unwrap_or("?").to_string();
                return Err(Violation::new(
                    "reads_at==fork",
                    site,
                    format!("at {:?}: {} : at-heads {:?} vs fork {:?}", hs, k, v, ef.get(k)),
                ));
            }
        }
        for (k, v) in ef.iter() {
            if !ea.contains_key(k) {
                return Err(Violation::new("reads_at==fork", "missing", format!("at {:?}: {} only on fork: {:?}", hs, k, v)));
            }
        }
    }
    Ok(())
}

pub fn run(args: &Args) -> i32 {
    let rep = Arc::new(new_report("C07", args, "model_checking"));
    let enc = TextEncoding::UnicodeCodePoint;
    let cap = if args.thorough() { 64 } else { 16 };
    let mut models = vec![];
    let mut cfgs: Vec<(&str, &str, Vec<u8>, u8, u8)> = super::history_configs(if args.thorough() { 1 } else { 0 }).into_iter().map(|(t, b, e, m)| (t, b, e, m, 0u8)).collect();
    // with "actor churn" (see world.rs): historical reads after the actor table was rewritten
    if args.thorough() {
        cfgs.extend(super::history_configs(0).into_iter().map(|(t, b, e, m)| (t, b, e, m, 1u8)));
    } else {
        cfgs.push(("map", "B2", vec![1, 1], 1, 1));
        cfgs.push(("text", "B2", vec![1, 1], 1, 1));
    }
    for (theme, bname, edits, merges, churn) in cfgs {
        let mut h = History::new(theme, bname, enc, &edits, merges).with_churn(churn);
        let b = base(bname, enc);
        let base_hashes: BTreeSet<ChangeHash> = b.get_changes(&[]).iter().map(|c| c.hash()).collect();
        let seen: Mutex<HashSet<Vec<String>>> = Mutex::new(HashSet::new());
        let rep2: Arc<Report> = rep.clone();
        h.state_oracle = Some(Box::new(move |w: &World| {
            let mut pool: Vec<Automerge> = w.docs.clone();
            let mut pool_churned: Vec<bool> = w.churned.clone();
            // pairwise merges: cuts that mix concurrent branches only exist in merged documents
            for i in 0..w.docs.len() {
                for j in (i + 1)..w.docs.len() {
                    let mut a = w.docs[i].clone();
                    a.merge(&mut w.docs[j].clone())
                        .map_err(|e| Violation::new("merge-ok", "merge Err", format!("{:?}", e)))?;
                    pool.push(a);
                    pool_churned.push(w.churned[i]);
                }
            }
            for (pi, d) in pool.iter().enumerate() {
                // each distinct document (by heads, and whether its actor table went through a churn) is checked once
                let mut dkey = hstr(&d.get_heads());
                dkey.push(format!("churned={}", pool_churned[pi]));
                if !seen.lock().unwrap().insert(dkey) && !crate::util::replaying() {
                    continue;
                }
                let g = Graph::new(d.get_changes(&[]));
                let mut sets = g.head_sets_above(&base_hashes, cap);
                // plus a few cuts through the base history itself
                for hs in g.all_head_sets(6) {
                    if !sets.contains(&hs) {
                        sets.push(hs);
                    }
                }
                for hs in sets.iter() {
                    check_at(d, &g, hs, enc)?;
                    rep2.count("head_sets_checked", 1);
                    rep2.count("evaluations", 1);
                }
            }
            Ok(())
        }));
        models.push((h.label(theme), h));
    }
    // the clock cache: a chain of 40 trivial changes crosses CACHE_STEP twice
    let lim = Limits {
        max_wall_s: if args.thorough() { 1700.0 } else { 45.0 },
        ..Default::default()
    };
    let ex = run_models(&rep, args, models, &lim).unwrap_or(false);
    if !rep.saturated() && args.opt("--replay").is_none() {
        if let Err(v) = chain_check(enc, &rep) {
            rep.violation(v.with_case(serde_json::json!({"explorer": "chain40"})));
        }
    }
    rep.finish(
        "BFS over worlds of real replicas; for every distinct document reached and every causally closed head set above the base (plus cuts through the base history): fork_at(H) has heads H, holds exactly ancestors(H) and equals the reference interpreter on them; every *_at(H) read (get/get_all/keys/length/text/marks/get_marks/spans/values/map_range/list_range for all sub-ranges/hydrate/parents/cursor and cursor position for every index and move mode) equals the plain read on the fork; plus a 40-change chain crossing the clock cache step, read again after an actor that sorts before / between / after the document's actors was added to and removed from the actor table by a transaction that leaves no change (same-value put, rollback)",
        &["head sets are derived from Change::deps() by the harness (every consistent cut, capped per document)"],
        ex,
    )
}

fn chain_check(enc: TextEncoding, rep: &Report) -> Result<(), Violation> {
    use automerge::transaction::Transactable;
    use automerge::ReadDoc as _;
    use automerge::ROOT;
    let mut d = crate::world::base_b1(enc).fork().with_actor(crate::world::actor(0x10));
    let mut e = d.fork().with_actor(crate::world::actor(0x90));
    let t = crate::alphabet::resolve(&d, crate::alphabet::Role::T).unwrap().0;
    let l = crate::alphabet::resolve(&d, crate::alphabet::Role::L).unwrap().0;
    for i in 0..40usize {
        let mut tx = d.transaction();
        tx.put(ROOT, "a", i as i64).unwrap();
        tx.splice_text(&t, i % 3, if i % 4 == 3 { 1 } else { 0 }, "k").unwrap();
        tx.commit();
        if i % 7 == 0 {
            let mut tx = e.transaction();
            tx.insert(&l, 0, i as i64).unwrap();
            tx.put(ROOT, "a", "e").unwrap();
            tx.commit();
            d.merge(&mut e.clone()).map_err(|e| Violation::new("merge-ok", "chain", format!("{:?}", e)))?;
        }
    }
    let g = Graph::new(d.get_changes(&[]));
    // every prefix of d's own chain plus mixed cuts
    let sets = g.all_head_sets(400);
    for hs in sets.iter() {
        check_at(&d, &g, hs, enc)?;
        rep.count("head_sets_checked", 1);
        rep.count("chain_head_sets", 1);
    }
    // actor churn: an actor that sorts before / between / after the document's actors opens a
    // transaction that leaves no change behind (a put of the value already there, and an edit that is
    // rolled back), so it is added to and removed from the actor table while cached clocks exist;
    // every historical read must still agree with fork_at
    for visitor in [0x00u8, 0x50, 0xf0] {
        for rollback in [false, true] {
            let mut dd = d.clone().with_actor(crate::world::actor(visitor));
            let cur = dd.get(ROOT, "a").ok().flatten().map(|(v, _)| v.into_owned());
            {
                let mut tx = dd.transaction();
                if rollback {
                    tx.put(ROOT, "zz", 1).unwrap();
                    tx.rollback();
                } else {
                    if let Some(automerge::Value::Scalar(sv)) = cur {
                        tx.put(ROOT, "a", sv.into_owned()).unwrap();
                    }
                    tx.commit();
                }
            }
            if dd.get_heads() != d.get_heads() {
                return Err(Violation::new("fork_at-differential", "chain:actor-churn:heads", format!("a transaction of actor {:02x} that leaves no change behind moved the heads", visitor)));
            }
            for hs in sets.iter() {
                check_at(&dd, &g, hs, enc).map_err(|mut v| {
                    v.site = format!("{}:after-actor-churn", v.site);
                    v
                })?;
                rep.count("head_sets_checked", 1);
                rep.count("chain_head_sets_after_actor_churn", 1);
            }
        }
    }
    Ok(())
}
