//! C15 / C16 / C17 / C23 — untrusted input: never crash, accepted documents are consistent,
//! bounded resources, Bloom filter.

use super::{new_report, Args};
use crate::bytes::run_engine;
use crate::report::{Report, Violation};
use crate::util::guard;
use automerge::sync::BloomFilter;
use automerge::ChangeHash;

fn replay_if_asked(prop: &str, args: &Args) -> Option<i32> {
    let p = args.opt("--replay")?;
    let j = crate::report::read_replay(std::path::Path::new(&p));
    if j["case"]["engine"].as_str() == Some("bytes") {
        if !crate::alloc_count::installed() {
            // the allocation oracle needs the worker binary's counting allocator
            let st = std::process::Command::new(crate::bytes::worker_bin()).args(["replay", &p]).status();
            return Some(st.ok().and_then(|s| s.code()).unwrap_or(2));
        }
        return Some(crate::bytes::replay_case(prop, &args.tier, j["case"]["hex"].as_str().unwrap_or(""), j["case"]["target"].as_str().unwrap_or("Load")));
    }
    None
}

pub fn run_c15(args: &Args) -> i32 {
    if let Some(rc) = replay_if_asked("C15", args) {
        return rc;
    }
    let rep = new_report("C15", args, "exploration");
    let complete = run_engine("C15", &args.tier, &rep);
    rep.finish(
        "for each of 21 decoders (load with four option sets, load_unverified_heads, load_incremental into an empty and a populated document, rescue, Change::from_bytes (+decode +apply), Bundle, sync Message::decode (+receive +generate, also as the answer to a message of ours), State::decode, BloomFilter::try_from (+queries), Cursor from bytes and from strings (+resolution), ObjId from bytes (+reads), ActorId / ChangeHash from strings and bytes, import / import_obj): (a) EVERY byte string of length <= 2 (quick) / <= 3 (thorough), for chunked formats also MAGIC + every string <= 2 and a valid header with fixed-up checksum + every body <= 2 for each chunk type, for textual parsers every string of <= 3 (4) tokens over {s,e,-,@,0,1,g,é,😀,_root}; (b) every single-site mutation (overwrite with 5+4 values quick / all 255 thorough, deletion, 4 insertions, transposition, truncation) of every corpus encoding (documents B1/B2/(B3), save+incrementals, a document with a queued orphan, raw and DEFLATEd changes, a bundle, sync messages of two sessions incl. mutations inside the nested change chunks, a sync state, Bloom filters, cursors, object ids, the repository's fixtures and fuzz crashers) with chunk length and checksum recomputed; (c) every LEB128 field replaced by 13 extreme values; oracle: returns a value or an error - no panic, no abort / OOM kill / stack overflow (worker process death is attributed to the journaled case and must reproduce twice), no case may use more than 10 s of CPU time (in-worker watchdog)",
        &["worker subprocesses with RLIMIT_AS 3 GiB", "distinct_nontrivial counts decoder classes exercised plus those that accepted at least one input"],
        complete,
    )
}

pub fn run_c16(args: &Args) -> i32 {
    if let Some(rc) = replay_if_asked("C16", args) {
        return rc;
    }
    let rep = new_report("C16", args, "exploration");
    let complete = run_engine("C16", &args.tier, &rep);
    rep.finish(
        "every single-site mutation (overwrites, deletion, insertions, transposition, truncation) and every LEB128-extreme substitution of every document / change / bundle encoding of the corpus with chunk length and checksum recomputed, through load, load with unchecked heads, load_unverified_heads, partial loads and load_incremental into a populated document; for every input that is ACCEPTED: every read (full observation and the second battery: ranges, values, hydrate, parents, cursors) now and at every head set of the loaded graph, fork_at of each, one edit of each theme, merge with a pristine replica in both directions, and save -> load must give an equal document with identical re-saved bytes; nothing may panic",
        &["the head-hash verification rejects most mutants; survivors are mutations in data the change hashes do not cover"],
        complete,
    )
}

pub fn run_c17(args: &Args) -> i32 {
    if let Some(rc) = replay_if_asked("C17", args) {
        return rc;
    }
    let rep = new_report("C17", args, "exploration");
    let complete = run_engine("C17", &args.tier, &rep);
    rep.finish(
        "all byte strings <= 2 per decoder (and the chunk-header families), every LEB128 field of every corpus encoding (<= 4 KiB) replaced by 13 extreme values with checksums recomputed, (thorough) plus single-site mutations: each case runs under a counting global allocator in a worker with RLIMIT_AS 3 GiB; per case: peak live heap <= 64 MiB + 1 KiB*n, total allocated <= 256 MiB + 64 KiB*n, thread CPU time <= 750 ms for an n-byte input; covers loading, message decode AND reply generation, Bloom queries with decoded parameters, cursor / id parsing; an allocation failure aborts the worker and is attributed to the journaled case",
        &["thresholds are two orders of magnitude above what honest inputs of this size need"],
        complete,
    )
}

/// no false negatives: exhaustive subsets of a pool of real hashes + synthetic hash sets
fn bloom_membership(rep: &Report, thorough: bool) {
    let ctx = crate::bytes::build_ctx(false);
    let mut pool: Vec<ChangeHash> = ctx.hashes.clone();
    let mut i = 0u8;
    while pool.len() < 12 {
        pool.push(ChangeHash(crate::util::sha256(&[i, 0x42])));
        i += 1;
    }
    pool.truncate(12);
    let check = |set: &[ChangeHash], what: &str| -> Result<(), Violation> {
        let r = guard(|| {
            let f = BloomFilter::from_hashes(set.iter());
            for h in set {
                if !f.contains_hash(h) {
                    return Err(format!("member {} reported absent", h));
                }
            }
            let bytes = f.to_bytes();
            let g = BloomFilter::try_from(&bytes[..]).map_err(|e| format!("own encoding does not decode: {}", e))?;
            if g != f {
                return Err("decode(encode(filter)) != filter".into());
            }
            for h in set {
                if !g.contains_hash(h) {
                    return Err(format!("member {} reported absent after encode/decode", h));
                }
            }
            Ok(())
        });
        match r {
            Err(p) => Err(Violation::new("panic", format!("bloom@{}", p.location), format!("{}: {}", what, p.message))),
            Ok(Err(e)) => Err(Violation::new("no-false-negatives", what.split(' ').next().unwrap_or("?").to_string(), format!("{}: {}", what, e))),
            Ok(Ok(())) => Ok(()),
        }
    };
    let mut n = 0u64;
    for mask in 0u32..(1 << 12) {
        let set: Vec<ChangeHash> = (0..12).filter(|i| mask & (1 << i) != 0).map(|i| pool[i]).collect();
        if let Err(v) = check(&set, &format!("subset {:#05x} of the pool", mask)) {
            rep.violation(v);
            break;
        }
        n += 1;
    }
    let sizes: Vec<usize> = if thorough { (0..=2000).collect() } else { (0..=64).chain([100, 255, 256, 257, 1000, 2000]).collect() };
    for size in sizes {
        for (kind, f) in [
            ("zero-prefix", Box::new(|i: usize| { let mut h = [0u8; 32]; h[24..32].copy_from_slice(&(i as u64).to_be_bytes()); ChangeHash(h) }) as Box<dyn Fn(usize) -> ChangeHash>),
            ("ones-prefix", Box::new(|i: usize| { let mut h = [0xffu8; 32]; h[24..32].copy_from_slice(&(i as u64).to_be_bytes()); ChangeHash(h) })),
            ("boundary-prefix", Box::new(|i: usize| { let mut h = [0u8; 32]; h[0..4].copy_from_slice(&(u32::MAX - i as u32).to_le_bytes()); h[4..8].copy_from_slice(&(i as u32).to_le_bytes()); h[8..12].copy_from_slice(&0x8000_0000u32.to_le_bytes()); ChangeHash(h) })),
            ("sha", Box::new(|i: usize| ChangeHash(crate::util::sha256(&(i as u64).to_le_bytes())))),
        ] {
            let set: Vec<ChangeHash> = (0..size).map(&f).collect();
            if let Err(v) = check(&set, &format!("{} set of size {}", kind, size)) {
                rep.violation(v);
            }
            n += 1;
        }
    }
    rep.count("membership_sets", n);
    rep.count("evaluations", n);
}

pub fn run_c23(args: &Args) -> i32 {
    if let Some(rc) = replay_if_asked("C23", args) {
        return rc;
    }
    let rep = new_report("C23", args, "exploration");
    bloom_membership(&rep, args.thorough());
    let complete = run_engine("C23", &args.tier, &rep);
    rep.finish(
        "(1) no false negatives: ALL 4096 subsets of a pool of 12 real change hashes, and synthetic hash sets of every size 0..64 plus 100/255/256/257/1000/2000 (thorough: every size 0..2000) with all-zero, all-one, modulus-boundary and SHA prefixes: build, query every member, encode, decode (must equal), query every member again; (2) every byte string of length <= 2 (quick) / <= 3 (thorough, 16.8 M), every single-site mutation and every LEB128-extreme substitution of valid filter encodings through BloomFilter::try_from; every filter that decodes is queried with 16 hashes incl. 00.. and ff..: a boolean, never a panic / abort",
        &["part (2) runs in worker subprocesses"],
        complete,
    )
}
