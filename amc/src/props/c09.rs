//! C09 — incremental patches keep a materialised view equal to the document.

use super::c08::{apply_all, brief};
use super::{new_report, run_models, Args};
use crate::alphabet::{apply, Applied, Op};
use crate::deliver::sync_quiesce;
use crate::explore::{Limits, Model, Step};
use crate::graph::Graph;
use crate::obs::hstr;
use crate::report::Violation;
use crate::view::View;
use crate::world::{actor, base, HAct, History, World, REPLICA_ACTORS};
use automerge::sync::SyncDoc;
use automerge::{AutoCommit, Automerge, ChangeHash, LoadOptions, PatchLog, ReadDoc, TextEncoding};
use sha2::{Digest, Sha256};

fn cmp(view: &View, doc_view: &View, site: &str, what: &str, patches: &[automerge::Patch]) -> Result<(), Violation> {
    if let Some((aspect, d)) = view.diff_aspect(doc_view) {
        return Err(Violation::new(
            "patched-view==document",
            format!("{}:{}", site, aspect),
            format!("{}: {} ; patches {}", what, d, brief(patches)),
        ));
    }
    Ok(())
}

/// Automerge-level API: the same transition redone with a patch log
fn automerge_edge(enc: TextEncoding) -> Box<crate::world::EdgeOracle> {
    Box::new(move |s: &World, a: &HAct, n: &World| {
        match a {
            HAct::Edit(r, op) => {
                let before = View::of_doc(&s.docs[*r], None, enc);
                let mut d = s.docs[*r].clone();
                let mut tx = d
                    .transaction_log_patches(PatchLog::active())
                    .map_err(|e| Violation::new("transaction_log_patches-ok", "Err", format!("{:?}", e)))?;
                match apply(&mut tx, op) {
                    Applied::Done => {}
                    _ => {
                        tx.rollback();
                        return Ok(());
                    }
                }
                // patches as seen inside the open transaction are not exposed; commit and make them
                let (_, mut log) = tx.commit();
                let patches = d.make_patches(&mut log);
                let got = apply_all(before, &patches, &format!("{:?}", op), "transaction_log_patches")?;
                cmp(&got, &View::of_doc(&d, None, enc), "transaction_log_patches", &format!("{:?}", op), &patches)?;
                if hstr(&d.get_heads()) != hstr(&n.docs[*r].get_heads()) {
                    return Err(Violation::new("logged-transaction-same-change", "heads", "the same edit with a patch log produced a different change"));
                }
            }
            HAct::Churn(_) => {}
            HAct::Merge(r, q) => {
                let before = View::of_doc(&s.docs[*r], None, enc);
                // merge_and_log_patches
                let mut d = s.docs[*r].clone();
                let mut log = PatchLog::active();
                d.merge_and_log_patches(&mut s.docs[*q].clone(), &mut log)
                    .map_err(|e| Violation::new("merge-ok", "Err", format!("{:?}", e)))?;
                let patches = d.make_patches(&mut log);
                let got = apply_all(before.clone(), &patches, "merge", "merge_and_log_patches")?;
                cmp(&got, &View::of_doc(&d, None, enc), "merge_and_log_patches", "merge", &patches)?;
                // apply_changes_log_patches, one change at a time in reverse causal order where possible
                let mut d2 = s.docs[*r].clone();
                let mut v = before.clone();
                let mut chs = s.docs[*r].get_changes_added(&s.docs[*q]);
                chs.reverse();
                for c in chs {
                    let mut log = PatchLog::active();
                    d2.apply_changes_log_patches([c], &mut log)
                        .map_err(|e| Violation::new("apply-ok", "Err", format!("{:?}", e)))?;
                    let patches = d2.make_patches(&mut log);
                    v = apply_all(v, &patches, "apply one change", "apply_changes_log_patches")?;
                    cmp(&v, &View::of_doc(&d2, None, enc), "apply_changes_log_patches", "one change (reverse order, queued until ready)", &patches)?;
                }
                // load_incremental_log_patches
                let mut d3 = s.docs[*r].clone();
                let mut log = PatchLog::active();
                let bytes = s.docs[*q].save_after(&s.docs[*r].get_heads());
                d3.load_incremental_log_patches(&bytes, &mut log)
                    .map_err(|e| Violation::new("load_incremental-ok", "Err", format!("{:?}", e)))?;
                let patches = d3.make_patches(&mut log);
                let got = apply_all(before.clone(), &patches, "load_incremental", "load_incremental_log_patches")?;
                cmp(&got, &View::of_doc(&d3, None, enc), "load_incremental_log_patches", "save_after bytes", &patches)?;
                // receive_sync_message_log_patches: run a sync session and accumulate
                let mut d4 = s.docs[*r].clone();
                let mut src = s.docs[*q].clone();
                let mut v = before.clone();
                let mut sa = automerge::sync::State::new();
                let mut sb = automerge::sync::State::new();
                for _ in 0..12 {
                    let ma = d4.generate_sync_message(&mut sa);
                    let mb = src.generate_sync_message(&mut sb);
                    if ma.is_none() && mb.is_none() {
                        break;
                    }
                    if let Some(m) = ma {
                        src.receive_sync_message(&mut sb, m).map_err(|e| Violation::new("sync-ok", "Err", format!("{:?}", e)))?;
                    }
                    if let Some(m) = mb {
                        let mut log = PatchLog::active();
                        d4.receive_sync_message_log_patches(&mut sa, m, &mut log)
                            .map_err(|e| Violation::new("sync-ok", "Err", format!("{:?}", e)))?;
                        let patches = d4.make_patches(&mut log);
                        v = apply_all(v, &patches, "sync message", "receive_sync_message_log_patches")?;
                        cmp(&v, &View::of_doc(&d4, None, enc), "receive_sync_message_log_patches", "sync message", &patches)?;
                    }
                }
                let _ = sync_quiesce;
            }
        }
        Ok(())
    })
}

/// load with a patch log applied to the empty view gives the loaded state; current_state likewise
fn load_oracle(enc: TextEncoding) -> Box<crate::world::StateOracle> {
    Box::new(move |w: &World| {
        for d in w.docs.iter() {
            let bytes = d.save();
            let mut log = PatchLog::active();
            let l = Automerge::load_with_options(&bytes, LoadOptions::new().patch_log(&mut log).text_encoding(enc))
                .map_err(|e| Violation::new("load-ok", "Err", format!("{:?}", e)))?;
            let patches = l.make_patches(&mut log);
            let got = apply_all(View::empty(enc), &patches, "load", "load_with_options{patch_log}")?;
            cmp(&got, &View::of_doc(&l, None, enc), "load_with_options{patch_log}", "load", &patches)?;
            let patches = d.current_state();
            let got = apply_all(View::empty(enc), &patches, "current_state", "current_state")?;
            cmp(&got, &View::of_doc(d, None, enc), "current_state", "current_state", &patches)?;
        }
        Ok(())
    })
}

// ---------------------------------------------------------------------------------------------
// AutoCommit explorer: every replica owns a view kept in sync by diff_incremental()

#[derive(Clone)]
pub struct AW {
    docs: Vec<AutoCommit>,
    views: Vec<View>,
    iso: Vec<bool>,
    edits: Vec<u8>,
    others: u8,
}

#[derive(Clone, Debug)]
pub enum AAct {
    Edit(usize, Op),
    /// two ops in one transaction
    Edit2(usize, Op, Op),
    EditRollback(usize, Op),
    Merge(usize, usize),
    LoadInc(usize, usize),
    Sync(usize, usize),
    Isolate(usize, Vec<ChangeHash>),
    Integrate(usize),
}

pub struct AModel {
    pub ops: Vec<Op>,
    pub base: String,
    pub enc: TextEncoding,
    pub edits: Vec<u8>,
    pub others: u8,
    /// include isolate / integrate in the alphabet
    pub isolate: bool,
}

fn doc_of(a: &AutoCommit) -> Automerge {
    let mut c = a.clone();
    c.document().clone()
}

impl AModel {
    fn settle(&self, w: &mut AW, r: usize, what: &str, site: &str) -> Result<(), Violation> {
        let patches = w.docs[r].diff_incremental();
        let site = &format!("{}{}", site, if w.iso[r] { ":isolated" } else { "" });
        let v = apply_all(w.views[r].clone(), &patches, what, site)?;
        // reads of an AutoCommit are at the isolation heads while isolated: that is the state the
        // patches must reproduce
        let dv = View::of_doc(&w.docs[r], None, self.enc);
        cmp(&v, &dv, site, what, &patches)?;
        w.views[r] = v;
        Ok(())
    }
}

impl Model for AModel {
    type S = AW;
    type A = AAct;

    fn inits(&self) -> Vec<(String, AW)> {
        let b = base(&self.base, self.enc);
        let bytes = b.save();
        let n = self.edits.len();
        let mut docs = vec![];
        let mut views = vec![];
        for i in 0..n {
            let mut d = AutoCommit::load_with_options(&bytes, LoadOptions::new().text_encoding(self.enc)).unwrap().with_actor(actor(REPLICA_ACTORS[i]));
            d.update_diff_cursor();
            views.push(View::of_doc(&d, None, self.enc));
            docs.push(d);
        }
        vec![(
            self.base.clone(),
            AW { docs, views, iso: vec![false; n], edits: self.edits.clone(), others: self.others },
        )]
    }

    fn actions(&self, s: &AW) -> Vec<AAct> {
        let mut v = vec![];
        let n = s.docs.len();
        for r in 0..n {
            if s.edits[r] > 0 {
                for op in self.ops.iter() {
                    v.push(AAct::Edit(r, *op));
                }
                for op in self.ops.iter().take(4) {
                    v.push(AAct::EditRollback(r, *op));
                }
                if s.edits[r] > 1 {
                    for (i, a) in self.ops.iter().enumerate().take(5) {
                        for b in self.ops.iter().skip(i).take(3) {
                            v.push(AAct::Edit2(r, *a, *b));
                        }
                    }
                }
            }
        }
        if s.others > 0 {
            for r in 0..n {
                for q in 0..n {
                    if r != q && !s.iso[r] {
                        v.push(AAct::Merge(r, q));
                        v.push(AAct::LoadInc(r, q));
                        v.push(AAct::Sync(r, q));
                    }
                }
            }
            for r in 0..n {
                if !self.isolate {
                    break;
                }
                if s.iso[r] {
                    v.push(AAct::Integrate(r));
                } else {
                    let g = Graph::new(doc_of(&s.docs[r]).get_changes(&[]));
                    for hs in g.all_head_sets(5) {
                        if !hs.is_empty() {
                            v.push(AAct::Isolate(r, hs));
                        }
                    }
                }
            }
        }
        v
    }

    fn step(&self, s: &AW, a: &AAct) -> Step<AW> {
        let mut n = s.clone();
        let res: Result<(), Violation> = (|| {
            match a {
                AAct::Edit(r, op) => {
                    match apply(&mut n.docs[*r], op) {
                        Applied::Done => {}
                        _ => {
                            n.docs[*r].rollback();
                            return Err(Violation::new("disabled", "", ""));
                        }
                    }
                    n.edits[*r] -= 1;
                    self.settle(&mut n, *r, &format!("{:?}", op), "edit")
                }
                AAct::Edit2(r, x, y) => {
                    for op in [x, y] {
                        match apply(&mut n.docs[*r], op) {
                            Applied::Done => {}
                            _ => {
                                n.docs[*r].rollback();
                                return Err(Violation::new("disabled", "", ""));
                            }
                        }
                    }
                    n.edits[*r] -= 2;
                    self.settle(&mut n, *r, &format!("{:?} + {:?}", x, y), "edit2")
                }
                AAct::EditRollback(r, op) => {
                    match apply(&mut n.docs[*r], op) {
                        Applied::Done => {}
                        _ => {
                            n.docs[*r].rollback();
                            return Err(Violation::new("disabled", "", ""));
                        }
                    }
                    n.docs[*r].rollback();
                    n.edits[*r] -= 1;
                    self.settle(&mut n, *r, &format!("{:?} then rollback", op), "rollback")
                }
                AAct::Merge(r, q) => {
                    let before = hstr(&doc_of(&n.docs[*r]).get_heads());
                    let mut o = s.docs[*q].clone();
                    n.docs[*r].merge(&mut o).map_err(|e| Violation::new("merge-ok", "Err", format!("{:?}", e)))?;
                    if hstr(&doc_of(&n.docs[*r]).get_heads()) == before {
                        return Err(Violation::new("disabled", "", ""));
                    }
                    n.others -= 1;
                    self.settle(&mut n, *r, "merge", "merge")
                }
                AAct::LoadInc(r, q) => {
                    let have = doc_of(&n.docs[*r]).get_heads();
                    let bytes = s.docs[*q].clone().save_after(&have);
                    if bytes.is_empty() {
                        return Err(Violation::new("disabled", "", ""));
                    }
                    n.docs[*r].load_incremental(&bytes).map_err(|e| Violation::new("load_incremental-ok", "Err", format!("{:?}", e)))?;
                    n.others -= 1;
                    self.settle(&mut n, *r, "load_incremental", "load_incremental")
                }
                AAct::Sync(r, q) => {
                    let before = hstr(&doc_of(&n.docs[*r]).get_heads());
                    let mut src = s.docs[*q].clone();
                    let mut sa = automerge::sync::State::new();
                    let mut sb = automerge::sync::State::new();
                    for _ in 0..12 {
                        let ma = n.docs[*r].sync().generate_sync_message(&mut sa);
                        let mb = src.sync().generate_sync_message(&mut sb);
                        if ma.is_none() && mb.is_none() {
                            break;
                        }
                        if let Some(m) = ma {
                            src.sync().receive_sync_message(&mut sb, m).map_err(|e| Violation::new("sync-ok", "Err", format!("{:?}", e)))?;
                        }
                        if let Some(m) = mb {
                            n.docs[*r].sync().receive_sync_message(&mut sa, m).map_err(|e| Violation::new("sync-ok", "Err", format!("{:?}", e)))?;
                            // the view is brought up to date after every received message
                            self.settle(&mut n, *r, "sync message", "receive_sync_message")?;
                        }
                    }
                    if hstr(&doc_of(&n.docs[*r]).get_heads()) == before {
                        return Err(Violation::new("disabled", "", ""));
                    }
                    n.others -= 1;
                    Ok(())
                }
                AAct::Isolate(r, hs) => {
                    n.docs[*r].isolate(hs);
                    n.iso[*r] = true;
                    n.others -= 1;
                    self.settle(&mut n, *r, &format!("isolate {:?}", hstr(hs)), "isolate")
                }
                AAct::Integrate(r) => {
                    n.docs[*r].integrate();
                    n.iso[*r] = false;
                    n.others -= 1;
                    self.settle(&mut n, *r, "integrate", "integrate")
                }
            }
        })();
        match res {
            Ok(()) => Step::Next(n),
            Err(v) if v.oracle == "disabled" => Step::Disabled,
            Err(v) => Step::Fail(v),
        }
    }

    fn key(&self, s: &AW) -> [u8; 32] {
        let mut h = Sha256::new();
        for (i, d) in s.docs.iter().enumerate() {
            let mut d = d.clone();
            for x in hstr(&d.document().get_heads()) {
                h.update(x.as_bytes());
            }
            h.update(b"|");
            for x in hstr(&d.get_heads()) {
                h.update(x.as_bytes());
            }
            h.update([s.iso[i] as u8, s.edits[i]]);
        }
        h.update([s.others]);
        let mut r = [0u8; 32];
        r.copy_from_slice(&h.finalize());
        r
    }

    fn fingerprint(&self, s: &AW) -> [u8; 32] {
        let mut h = Sha256::new();
        h.update(self.key(s));
        for v in s.views.iter() {
            h.update(serde_json::to_string(&v.reachable()).unwrap().as_bytes());
        }
        let mut r = [0u8; 32];
        r.copy_from_slice(&h.finalize());
        r
    }

    fn describe(&self, s: &AW) -> serde_json::Value {
        serde_json::json!(s.docs.iter().map(|d| crate::obs::render_hydrate(&d.hydrate(automerge::ROOT, None).unwrap())).collect::<Vec<_>>())
    }
}

/// (C) Two document-changing steps between two reads of the patches. The explorers above read the
/// patches after every action; here a view owner applies a change that removes a conflict winner
/// (so the losing value - possibly a whole nested object - is exposed) and then, BEFORE reading
/// diff_incremental(), something else happens that rewrites the actor table (an actor sorting
/// before / between / after the others joins through apply_changes, merge, or the owner's first
/// local edit under a new actor id) or adds further changes. Every combination of a small family.
fn exposure_then_more(enc: TextEncoding, rep: &crate::report::Report) -> Result<(), Violation> {
    use automerge::transaction::Transactable;
    use automerge::{ObjType, ROOT};
    #[derive(Clone, Copy, Debug)]
    enum Kind {
        MapObj,
        ListObj,
        TextObj,
        Scalar,
        Counter,
    }
    #[derive(Clone, Copy, Debug)]
    enum Via {
        Apply,
        Merge,
        LocalEditNewActor,
        LocalEditSameActor,
        Nothing,
    }
    let put = |d: &mut AutoCommit, in_list: bool, kind: Kind, tag: &str| -> Result<(), automerge::AutomergeError> {
        let (obj, prop): (automerge::ObjId, automerge::Prop) = if in_list {
            let l = d.get(ROOT, "l")?.map(|x| x.1).unwrap();
            (l, 0usize.into())
        } else {
            (ROOT, "k".into())
        };
        match kind {
            Kind::MapObj => {
                let o = d.put_object(&obj, prop, ObjType::Map)?;
                let inner = d.put_object(&o, "inner", ObjType::Map)?;
                d.put(&inner, "deep", tag)?;
                d.put(&o, "x", 1)?;
            }
            Kind::ListObj => {
                let o = d.put_object(&obj, prop, ObjType::List)?;
                d.insert(&o, 0, tag)?;
                let m = d.insert_object(&o, 1, ObjType::Map)?;
                d.put(&m, "y", 2)?;
            }
            Kind::TextObj => {
                let o = d.put_object(&obj, prop, ObjType::Text)?;
                d.splice_text(&o, 0, 0, tag)?;
            }
            Kind::Scalar => d.put(&obj, prop, tag)?,
            Kind::Counter => d.put(&obj, prop, automerge::ScalarValue::counter(tag.len() as i64))?,
        }
        Ok(())
    };
    let e = |x: automerge::AutomergeError| Violation::new("patched-view==document", "exposure:setup", format!("{:?}", x));
    for in_list in [false, true] {
        for loser_kind in [Kind::MapObj, Kind::ListObj, Kind::TextObj, Kind::Scalar, Kind::Counter] {
            for winner_kind in [Kind::MapObj, Kind::Scalar] {
                for via in [Via::Apply, Via::Merge, Via::LocalEditNewActor, Via::LocalEditSameActor, Via::Nothing] {
                    for joiner in [0x00u8, 0x50, 0xf0] {
                        if matches!(via, Via::Nothing | Via::LocalEditSameActor) && joiner != 0x00 {
                            continue;
                        }
                        for read_in_between in [false, true] {
                            // shared start: a list at "l" with one element
                            let mut base = AutoCommit::new_with_encoding(enc).with_actor(actor(0x40));
                            let l = base.put_object(ROOT, "l", ObjType::List).map_err(e)?;
                            base.insert(&l, 0, 0).map_err(e)?;
                            base.commit();
                            // loser by 0x80, winner by 0xa0 with a later op id, concurrently
                            let mut lo = base.fork().with_actor(actor(0x80));
                            put(&mut lo, in_list, loser_kind, "loser").map_err(e)?;
                            lo.commit();
                            let mut wi = base.fork().with_actor(actor(0xa0));
                            wi.put(ROOT, "pad", 1).map_err(e)?;
                            wi.put(ROOT, "pad", 2).map_err(e)?;
                            wi.put(ROOT, "pad", 3).map_err(e)?;
                            wi.put(ROOT, "pad", 4).map_err(e)?;
                            wi.put(ROOT, "pad", 5).map_err(e)?;
                            wi.put(ROOT, "pad", 6).map_err(e)?;
                            put(&mut wi, in_list, winner_kind, "winner").map_err(e)?;
                            wi.commit();
                            // the view owner has both
                            let mut d = base.fork().with_actor(actor(0x60));
                            d.merge(&mut lo.clone()).map_err(e)?;
                            d.merge(&mut wi.clone()).map_err(e)?;
                            d.update_diff_cursor();
                            let mut view = View::of_doc(&d, None, enc);
                            // the winner's author removes its value without having seen the loser
                            if in_list {
                                let l = wi.get(ROOT, "l").map_err(e)?.map(|x| x.1).unwrap();
                                wi.delete(&l, 0).map_err(e)?;
                            } else {
                                wi.delete(ROOT, "k").map_err(e)?;
                            }
                            wi.commit();
                            let what = format!("in_list={} loser={:?} winner={:?} then {:?} (actor {:02x}), read in between: {}", in_list, loser_kind, winner_kind, via, joiner, read_in_between);
                            let site = format!("exposure+{:?}", via);
                            let mut read = |d: &mut AutoCommit, view: &mut View| -> Result<(), Violation> {
                                let patches = d.diff_incremental();
                                let v = apply_all(view.clone(), &patches, &what, &site)?;
                                cmp(&v, &View::of_doc(d, None, enc), &site, &what, &patches)?;
                                *view = v;
                                Ok(())
                            };
                            d.merge(&mut wi.clone()).map_err(e)?;
                            if read_in_between {
                                read(&mut d, &mut view)?;
                            }
                            match via {
                                Via::Nothing => {}
                                Via::Apply | Via::Merge => {
                                    let mut j = base.fork().with_actor(actor(joiner));
                                    j.put(ROOT, "joined", 1).map_err(e)?;
                                    j.commit();
                                    if matches!(via, Via::Merge) {
                                        d.merge(&mut j).map_err(e)?;
                                    } else {
                                        let ch = j.get_last_local_change().unwrap();
                                        d.apply_changes([ch]).map_err(e)?;
                                    }
                                }
                                Via::LocalEditNewActor => {
                                    d.set_actor(actor(joiner));
                                    d.put(ROOT, "local", 1).map_err(e)?;
                                }
                                Via::LocalEditSameActor => {
                                    d.put(ROOT, "local", 1).map_err(e)?;
                                }
                            }
                            read(&mut d, &mut view)?;
                            rep.count("exposure_scenarios", 1);
                            rep.count("evaluations", 1);
                        }
                    }
                }
            }
        }
    }
    Ok(())
}

pub fn run(args: &Args) -> i32 {
    let rep = new_report("C09", args, "model_checking");
    let enc = TextEncoding::UnicodeCodePoint;
    let lim = Limits {
        max_wall_s: if args.thorough() { 800.0 } else { 15.0 },
        ..Default::default()
    };
    // (A) Automerge-level logging APIs on the shared history worlds
    let mut models = vec![];
    for (theme, bname, edits, merges) in super::history_configs(if args.thorough() { 1 } else { 0 }) {
        let merges = merges.max(1);
        let mut h = History::new(theme, bname, enc, &edits, merges);
        h.edge_oracle = Some(automerge_edge(enc));
        h.state_oracle = Some(load_oracle(enc));
        h.fp_opcols = false;
        models.push((format!("log-apis {}", h.label(theme)), h));
    }
    let ex1 = run_models(&rep, args, models, &lim);
    // (B) AutoCommit replicas with an armed diff cursor
    let mut amodels = vec![];
    for theme in crate::alphabet::THEMES {
        for bname in ["B1", "B2"] {
            let (edits, others) = if args.thorough() { (vec![2, 2], 2) } else if *bname == *"B2" { (vec![1, 1], 1) } else { (vec![2, 1], 1) };
            if !args.thorough() && *bname == *"B2" && !matches!(*theme, "text") {
                continue;
            }
            amodels.push((
                format!("autocommit[{} {} L={:?} others={}]", theme, bname, edits, others),
                AModel { ops: crate::alphabet::theme(theme).to_vec(), base: bname.to_string(), enc, edits, others, isolate: true },
            ));
        }
    }
    let lim = Limits {
        max_wall_s: if args.thorough() { 900.0 } else { 40.0 },
        ..Default::default()
    };
    let ex2 = run_models(&rep, args, amodels, &lim);
    // (C) exposure of a losing value followed by a second step before the patches are read
    if args.opt("--replay").is_none() || crate::util::replaying() {
        match crate::util::guard(|| exposure_then_more(enc, &rep)) {
            Ok(Ok(())) => {}
            Ok(Err(v)) => {
                rep.violation(v.with_case(serde_json::json!({"explorer": "exposure_then_more"})));
            }
            Err(p) => {
                rep.violation(Violation::new("panic", format!("exposure_then_more@{}", p.location), p.message).with_case(serde_json::json!({"explorer": "exposure_then_more"})));
            }
        }
    }
    let ex = ex1.unwrap_or(false) && ex2.unwrap_or(ex1.is_some());
    rep.finish(
        "(A) history explorer over Automerge replicas with an edge oracle that redoes every transition through the logging APIs: transaction_log_patches (+make_patches), merge_and_log_patches, apply_changes_log_patches one change at a time in reverse order (so changes queue and are released), load_incremental_log_patches, receive_sync_message_log_patches over a whole sync session; state oracle: load_with_options{patch_log} and current_state() applied to the empty view; (B) explicit-state BFS over AutoCommit replicas with an armed diff cursor, each owning a view: actions edit (left open, closed by diff_incremental), two edits in one transaction, edit then rollback, merge, load_incremental, sync session (view updated after every received message), isolate(H) for consistent cuts, integrate; after every action diff_incremental() patches applied by the harness's patch applier must turn the previous view into exactly the view read from the document (winners, conflict flags, counters, text units, per-unit marks); (C) every combination of a small family where TWO document-changing steps happen between two reads of diff_incremental(): a change that removes a conflict winner and exposes the loser (nested map / list / text object, scalar, counter; in a map key and in a list element) followed by a join of an actor sorting before / between / after (through apply_changes, merge, the owner's first edit under a new actor id), a plain local edit, or nothing, with and without a read in between",
        &["view comparison ignores marks on embedded-object placeholders (Insert patches cannot carry marks)"],
        ex,
    )
}
