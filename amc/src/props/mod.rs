pub mod c01;
pub mod c02;
pub mod c03;
pub mod c04;
pub mod c05;
pub mod c06;
pub mod c07;
pub mod c08;
pub mod c09;
pub mod c10;
pub mod c11;
pub mod c12;
pub mod c13;
pub mod c15;
pub mod c18;
pub mod c19;
pub mod c20;
pub mod c24;
pub mod c25;
pub mod c26;
pub mod c27;
pub mod c28;
pub mod c29;
pub mod c30;
pub mod c31;
pub mod c32;
pub mod c33;
pub mod c34;
pub mod c35;
pub mod c36;
pub mod c37;
pub mod c38;
pub mod c39;
pub mod c40;
pub mod docpool;

use crate::report::Report;
use automerge::TextEncoding;

pub struct Args {
    pub tier: String,
    pub rest: Vec<String>,
}

impl Args {
    pub fn thorough(&self) -> bool {
        self.tier == "thorough"
    }
    pub fn opt(&self, name: &str) -> Option<String> {
        let mut it = self.rest.iter();
        while let Some(a) = it.next() {
            if a == name {
                return it.next().cloned();
            }
        }
        None
    }
}

pub const ENCODINGS: [TextEncoding; 4] = [
    TextEncoding::UnicodeCodePoint,
    TextEncoding::Utf8CodeUnit,
    TextEncoding::Utf16CodeUnit,
    TextEncoding::GraphemeCluster,
];

pub fn run(prop: &str, args: &Args) -> i32 {
    match prop {
        "C01" => c01::run(args),
        "C02" => c02::run(args),
        "C03" => c03::run(args),
        "C04" => c04::run(args),
        "C05" => c05::run(args),
        "C06" => c06::run(args),
        "C07" => c07::run(args),
        "C08" => c08::run(args),
        "C09" => c09::run(args),
        "C10" => c10::run(args),
        "C11" => c11::run(args),
        "C12" => c12::run(args),
        "C13" => c13::run_c13(args),
        "C14" => c13::run_c14(args),
        "C15" => c15::run_c15(args),
        "C16" => c15::run_c16(args),
        "C17" => c15::run_c17(args),
        "C18" => c18::run(args),
        "C19" => c19::run(args),
        "C20" => c20::run_c20(args),
        "C21" => c20::run_c21(args),
        "C22" => c20::run_c22(args),
        "C23" => c15::run_c23(args),
        "C24" => c24::run(args),
        "C25" => c25::run(args),
        "C26" => c26::run(args),
        "C27" => c27::run(args),
        "C28" => c28::run(args),
        "C29" => c29::run(args),
        "C30" => c30::run(args),
        "C31" => c31::run(args),
        "C32" => c32::run(args),
        "C33" => c33::run(args),
        "C34" => c34::run_c34(args),
        "C35" => c34::run_c35(args),
        "C36" => c36::run(args),
        "C37" => c37::run(args),
        "C38" => c38::run(args),
        "C39" => c39::run(args),
        "C40" => c40::run(args),
        _ => {
            eprintln!("unknown property {}", prop);
            2
        }
    }
}

pub fn new_report(prop: &str, args: &Args, level: &str) -> Report {
    let r = Report::new(prop, &args.tier, level);
    *r.replay_cmd.lock().unwrap() = vec![prop.to_string(), args.tier.clone()];
    r
}

use crate::explore::{explore, replay_path, Limits, Model};

/// Run (or replay on) a list of explorer configurations. Returns (all exhausted, replay handled).
pub fn run_models<M: Model>(rep: &Report, args: &Args, models: Vec<(String, M)>, lim: &Limits) -> Option<bool> {
    if let Some(path) = args.opt("--replay") {
        let j = crate::report::read_replay(std::path::Path::new(&path));
        let case = &j["case"];
        let label = case["explorer"].as_str().unwrap_or("");
        for (l, m) in models.iter() {
            if l == label {
                let init = case["init"].as_u64().unwrap_or(0) as usize;
                let p: Vec<u32> = case["path"]
                    .as_array()
                    .map(|a| a.iter().map(|x| x.as_u64().unwrap() as u32).collect())
                    .unwrap_or_default();
                println!("replaying {} init={} path={:?}", l, init, p);
                match replay_path(m, init, &p, true) {
                    Ok(Some(v)) => {
                        println!("REPRODUCED sig={} :: {}", v.sig(), v.detail);
                        std::process::exit(1);
                    }
                    Ok(None) => {
                        println!("path replayed without violation");
                        std::process::exit(0);
                    }
                    Err(e) => {
                        println!("replay diverged: {}", e);
                        std::process::exit(2);
                    }
                }
            }
        }
        return None;
    }
    let mut all = true;
    let t0 = std::time::Instant::now();
    for (l, m) in models.iter() {
        let left = lim.max_wall_s - t0.elapsed().as_secs_f64();
        if left <= 0.0 {
            all = false;
            rep.note(format!("wall cap reached before explorer {}", l));
            continue;
        }
        let lim2 = Limits {
            max_depth: lim.max_depth,
            max_states: lim.max_states,
            max_wall_s: left,
        };
        let o = explore(m, rep, &lim2, l);
        rep.count("explorers_run", 1);
        if !o.exhausted {
            all = false;
        }
        if std::env::var("AMC_VERBOSE").is_ok() {
            eprintln!(
                "{}: states={} transitions={} depth={} outcomes={} exhausted={}",
                l, o.states, o.transitions, o.max_depth, o.distinct_outcomes, o.exhausted
            );
        }
        if rep.saturated() {
            break;
        }
    }
    Some(all)
}

/// The shared list of history-explorer configurations: (theme, base, edit budgets, merge budget).
/// `scale` 0 = smallest (used by expensive oracles in the quick tier), 1 = quick, 2 = thorough.
pub fn history_configs(scale: u8) -> Vec<(&'static str, &'static str, Vec<u8>, u8)> {
    let mut v = vec![];
    for theme in crate::alphabet::THEMES {
        for base in ["B0", "B1", "B2"] {
            if base == "B0" && !matches!(*theme, "map" | "nested") {
                continue;
            }
            match scale {
                0 => {
                    if base != "B1" {
                        v.push((*theme, base, vec![1, 1], 1));
                    } else {
                        v.push((*theme, base, vec![2, 1], 0));
                    }
                }
                1 => {
                    v.push((*theme, base, vec![2, 1], 1));
                    if base == "B2" {
                        v.push((*theme, base, vec![1, 1, 1], 0));
                    }
                }
                _ => {
                    v.push((*theme, base, vec![3, 2], 2));
                    v.push((*theme, base, vec![2, 2, 1], 2));
                }
            }
        }
    }
    v
}
