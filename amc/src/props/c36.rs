//! C36 — the C ABI agrees with the Rust API and is memory-safe.
//!
//! The Rust side enumerates every program of a bounded family (a fixed prefix that builds a
//! document with a map, a list, a text and a counter and forks it; then every sequence of up to
//! k steps of an alphabet of C API calls; then a fixed observation suffix that reads everything
//! through the C API; then the frees in one of three orders), computes the expected output of
//! every line with the Rust API, and lets the C interpreter (`/verif/cdriver/driver.c`, linked
//! against `libautomerge_core.a` built from /repo) execute the same programs through the C ABI,
//! natively (all shards, output compared line by line) and under valgrind memcheck (leaks and
//! memory errors are violations).

use super::{new_report, Args};
use crate::report::{Report, Violation};
use crate::util::guard;
use automerge::transaction::{CommitOptions, Transactable};
use automerge::{sync, sync::SyncDoc, ActorId, AutoCommit, Change, ChangeHash, Cursor, ObjId, ObjType, ReadDoc, ScalarValue, Value, ROOT};
use rayon::prelude::*;
use serde_json::json;
use std::collections::BTreeMap;
use std::path::PathBuf;

#[derive(Clone, Debug, PartialEq)]
pub enum PV {
    Int(i64),
    Uint(u64),
    Counter(i64),
    Ts(i64),
    Bool(bool),
    Null,
    F64(f64),
    Str(String),
    Bytes(Vec<u8>),
    Obj(ObjType),
}

#[derive(Clone, Debug, PartialEq)]
pub enum O {
    Root,
    S(usize),
}

#[derive(Clone, Debug, PartialEq)]
pub enum Cmd {
    Create(Vec<u8>),
    CreateStr(String),
    SetActor(usize, Vec<u8>),
    GetActor(usize),
    MPut(usize, O, String, PV),
    LPut(usize, O, usize, bool, PV),
    MDel(usize, O, String),
    LDel(usize, O, usize),
    MInc(usize, O, String, i64),
    LInc(usize, O, usize, i64),
    TSplice(usize, O, usize, isize, String),
    Commit(usize, String, i64),
    Empty(usize, String, i64),
    Rollback(usize),
    Pending(usize),
    Save(usize),
    SaveInc(usize),
    Load(usize),
    LoadInc(usize, usize),
    Fork(usize),
    ForkAt(usize, usize),
    CloneDoc(usize),
    Merge(usize, usize),
    Equal(usize, usize),
    Heads(usize),
    Missing(usize),
    Changes(usize),
    LastLocal(usize),
    ApplyChanges(usize, usize),
    ChangeFromBytes(usize),
    MGet(usize, O, String),
    MGetAll(usize, O, String),
    LGet(usize, O, usize),
    LGetAll(usize, O, usize),
    Keys(usize, O),
    Size(usize, O),
    OType(usize, O),
    Text(usize, O),
    Items(usize, O),
    MRange(usize, O),
    LRange(usize, O, usize, usize),
    GetCursor(usize, O, usize),
    CursorPos(usize, O, usize),
    SyncInit,
    Gen(usize, usize),
    Enc(usize),
    Dec(usize),
    Recv(usize, usize, usize),
    StateEnc(usize),
    StateDec(usize),
    Dump(usize),
    Cat(usize, usize),
    Free(usize),
}

pub type Line = (Option<usize>, Cmd);

fn hx(b: &[u8]) -> String {
    hex::encode(b)
}
fn oref(o: &O) -> String {
    match o {
        O::Root => "root".into(),
        O::S(k) => format!("O{}", k),
    }
}
fn pv_args(v: &PV) -> String {
    match v {
        PV::Int(i) => format!("int {}", i),
        PV::Uint(u) => format!("uint {}", u),
        PV::Counter(i) => format!("counter {}", i),
        PV::Ts(i) => format!("ts {}", i),
        PV::Bool(b) => format!("bool {}", *b as u8),
        PV::Null => "null 0".into(),
        PV::F64(f) => format!("f64 {:016x}", f.to_bits()),
        PV::Str(s) => format!("str x{}", hx(s.as_bytes())),
        PV::Bytes(b) => format!("bytes x{}", hx(b)),
        PV::Obj(t) => format!("obj {}", otype_name(*t)),
    }
}
fn otype_name(t: ObjType) -> &'static str {
    match t {
        ObjType::Map | ObjType::Table => "map",
        ObjType::List => "list",
        ObjType::Text => "text",
    }
}

pub fn op_name(c: &Cmd) -> &'static str {
    match c {
        Cmd::Create(_) => "create",
        Cmd::CreateStr(_) => "createstr",
        Cmd::SetActor(..) => "setactor",
        Cmd::GetActor(_) => "getactor",
        Cmd::MPut(..) => "mput",
        Cmd::LPut(..) => "lput",
        Cmd::MDel(..) => "mdel",
        Cmd::LDel(..) => "ldel",
        Cmd::MInc(..) => "minc",
        Cmd::LInc(..) => "linc",
        Cmd::TSplice(..) => "tsplice",
        Cmd::Commit(..) => "commit",
        Cmd::Empty(..) => "empty",
        Cmd::Rollback(_) => "rollback",
        Cmd::Pending(_) => "pending",
        Cmd::Save(_) => "save",
        Cmd::SaveInc(_) => "saveinc",
        Cmd::Load(_) => "load",
        Cmd::LoadInc(..) => "loadinc",
        Cmd::Fork(_) => "fork",
        Cmd::ForkAt(..) => "forkat",
        Cmd::CloneDoc(_) => "clone",
        Cmd::Merge(..) => "merge",
        Cmd::Equal(..) => "equal",
        Cmd::Heads(_) => "heads",
        Cmd::Missing(_) => "missing",
        Cmd::Changes(_) => "changes",
        Cmd::LastLocal(_) => "lastlocal",
        Cmd::ApplyChanges(..) => "applychanges",
        Cmd::ChangeFromBytes(_) => "changefrombytes",
        Cmd::MGet(..) => "mget",
        Cmd::MGetAll(..) => "mgetall",
        Cmd::LGet(..) => "lget",
        Cmd::LGetAll(..) => "lgetall",
        Cmd::Keys(..) => "keys",
        Cmd::Size(..) => "size",
        Cmd::OType(..) => "otype",
        Cmd::Text(..) => "text",
        Cmd::Items(..) => "items",
        Cmd::MRange(..) => "mrange",
        Cmd::LRange(..) => "lrange",
        Cmd::GetCursor(..) => "cursor",
        Cmd::CursorPos(..) => "cursorpos",
        Cmd::SyncInit => "syncinit",
        Cmd::Gen(..) => "gen",
        Cmd::Enc(_) => "enc",
        Cmd::Dec(_) => "dec",
        Cmd::Recv(..) => "recv",
        Cmd::StateEnc(_) => "stateenc",
        Cmd::StateDec(_) => "statedec",
        Cmd::Dump(_) => "dump",
        Cmd::Cat(..) => "cat",
        Cmd::Free(_) => "free",
    }
}

pub fn to_line((dst, c): &Line) -> String {
    let d = dst.map(|k| k.to_string()).unwrap_or_else(|| "-".into());
    let op = op_name(c);
    let args = match c {
        Cmd::Create(a) => format!("x{}", hx(a)),
        Cmd::CreateStr(s) => format!("x{}", s),
        Cmd::SetActor(k, a) => format!("D{} x{}", k, hx(a)),
        Cmd::GetActor(k) | Cmd::Rollback(k) | Cmd::Pending(k) | Cmd::Save(k) | Cmd::SaveInc(k) | Cmd::Fork(k) | Cmd::CloneDoc(k) | Cmd::Heads(k) | Cmd::Missing(k) | Cmd::Changes(k) | Cmd::LastLocal(k) | Cmd::Dump(k) => format!("D{}", k),
        Cmd::MPut(k, o, key, v) => format!("D{} {} x{} {}", k, oref(o), hx(key.as_bytes()), pv_args(v)),
        Cmd::LPut(k, o, pos, ins, v) => format!("D{} {} {} {} {}", k, oref(o), pos, *ins as u8, pv_args(v)),
        Cmd::MDel(k, o, key) => format!("D{} {} x{}", k, oref(o), hx(key.as_bytes())),
        Cmd::LDel(k, o, pos) => format!("D{} {} {}", k, oref(o), pos),
        Cmd::MInc(k, o, key, n) => format!("D{} {} x{} {}", k, oref(o), hx(key.as_bytes()), n),
        Cmd::LInc(k, o, pos, n) => format!("D{} {} {} {}", k, oref(o), pos, n),
        Cmd::TSplice(k, o, pos, del, t) => format!("D{} {} {} {} x{}", k, oref(o), pos, del, hx(t.as_bytes())),
        Cmd::Commit(k, m, t) | Cmd::Empty(k, m, t) => format!("D{} x{} {}", k, hx(m.as_bytes()), t),
        Cmd::Load(b) | Cmd::Dec(b) | Cmd::StateDec(b) => format!("B{}", b),
        Cmd::LoadInc(k, b) => format!("D{} B{}", k, b),
        Cmd::ForkAt(k, h) => format!("D{} H{}", k, h),
        Cmd::Merge(a, b) | Cmd::Equal(a, b) => format!("D{} D{}", a, b),
        Cmd::ApplyChanges(k, r) => format!("D{} R{}", k, r),
        Cmd::ChangeFromBytes(r) => format!("R{}", r),
        Cmd::MGet(k, o, key) | Cmd::MGetAll(k, o, key) => format!("D{} {} x{}", k, oref(o), hx(key.as_bytes())),
        Cmd::LGet(k, o, p) | Cmd::LGetAll(k, o, p) | Cmd::GetCursor(k, o, p) => format!("D{} {} {}", k, oref(o), p),
        Cmd::Keys(k, o) | Cmd::Size(k, o) | Cmd::OType(k, o) | Cmd::Text(k, o) | Cmd::Items(k, o) | Cmd::MRange(k, o) => format!("D{} {}", k, oref(o)),
        Cmd::LRange(k, o, a, b) => format!("D{} {} {} {}", k, oref(o), a, b),
        Cmd::CursorPos(k, o, c) => format!("D{} {} C{}", k, oref(o), c),
        Cmd::SyncInit => String::new(),
        Cmd::Gen(k, s) => format!("D{} S{}", k, s),
        Cmd::Enc(m) => format!("M{}", m),
        Cmd::Recv(k, s, m) => format!("D{} S{} M{}", k, s, m),
        Cmd::StateEnc(s) => format!("S{}", s),
        Cmd::Cat(a, b) => format!("R{} R{}", a, b),
        Cmd::Free(k) => format!("R{}", k),
    };
    format!("{} {} {}", d, op, args).trim_end().to_string()
}

// ------------------------------------------------------------------------------------------
// reference execution with the Rust API

pub enum Slot {
    Doc(Box<AutoCommit>),
    Obj(ObjId),
    Bytes(Vec<u8>),
    Hashes(Vec<ChangeHash>),
    Changes(Vec<Change>),
    State(Box<sync::State>),
    Msg(Option<sync::Message>),
    Cursor(Cursor),
    Other,
    Err,
}

#[derive(Default)]
pub struct Ref {
    pub slots: BTreeMap<usize, Slot>,
}

fn id_str(id: &ObjId) -> String {
    match id {
        ObjId::Root => "_root".into(),
        ObjId::Id(ctr, actor, _) => format!("{}@{}", ctr, hx(actor.to_bytes())),
    }
}

fn scalar_str(s: &ScalarValue) -> String {
    match s {
        ScalarValue::Null => "null".into(),
        ScalarValue::Boolean(b) => format!("bool:{}", *b as u8),
        ScalarValue::Int(i) => format!("int:{}", i),
        ScalarValue::Uint(u) => format!("uint:{}", u),
        ScalarValue::F64(f) => format!("f64:{:016x}", f.to_bits()),
        ScalarValue::Counter(c) => format!("counter:{}", i64::from(c)),
        ScalarValue::Timestamp(t) => format!("ts:{}", t),
        ScalarValue::Str(s) => format!("str:{}", hx(s.as_bytes())),
        ScalarValue::Bytes(b) => format!("bytes:{}", hx(b)),
        ScalarValue::Unknown { type_code, .. } => format!("unknown{}", type_code),
    }
}

/// value as the driver prints it: scalars with `#id` when `with_id`, objects as obj:type:id
fn value_str(v: &Value<'_>, id: &ObjId, with_id: bool) -> String {
    match v {
        Value::Object(t) => format!("obj:{}:{}", otype_name(*t), id_str(id)),
        Value::Scalar(s) => {
            if with_id {
                format!("{}#{}", scalar_str(s), id_str(id))
            } else {
                scalar_str(s)
            }
        }
    }
}

fn change_str(c: &Change) -> String {
    let deps: Vec<String> = c.deps().iter().map(|h| format!("hash:{}", hx(h.as_ref()))).collect();
    format!(
        "{{hash={} seq={} start={} max={} time={} msg={} size={} actor=actor:{}/{} deps=OK {}{}{} raw={}}}",
        hx(c.hash().as_ref()),
        c.seq(),
        c.start_op(),
        c.max_op(),
        c.timestamp(),
        hx(c.message().map(|m| m.as_bytes()).unwrap_or(&[])),
        c.len(),
        hx(c.actor_id().to_bytes()),
        c.actor_id().to_hex_string(),
        deps.len(),
        if deps.is_empty() { "" } else { " " },
        deps.join(" "),
        hx(c.raw_bytes())
    )
}

fn hashes_str(h: &[ChangeHash]) -> String {
    let mut s = format!("OK {}", h.len());
    for x in h {
        s.push_str(&format!(" hash:{}", hx(x.as_ref())));
    }
    s
}

fn dump(d: &AutoCommit, o: &ObjId, depth: usize) -> String {
    if depth > 6 {
        return "...".into();
    }
    let t = if *o == ROOT { ObjType::Map } else { d.object_type(o).unwrap_or(ObjType::Map) };
    match t {
        ObjType::Text => format!("T\"{}\"", hx(d.text(o).unwrap_or_default().as_bytes())),
        ObjType::Map | ObjType::Table => {
            let mut parts = vec![];
            for item in d.map_range(o, ..) {
                let id = item.id();
                let v = match item.value.clone().into_value() {
                    Value::Object(_) => dump(d, &id, depth + 1),
                    Value::Scalar(s) => scalar_str(&s),
                };
                parts.push(format!("k{}={}", hx(item.key.as_bytes()), v));
            }
            format!("{{{}}}", parts.join(","))
        }
        ObjType::List => {
            let mut parts = vec![];
            for item in d.list_range(o, ..) {
                let id = item.id();
                let v = match item.value.clone().into_value() {
                    Value::Object(_) => dump(d, &id, depth + 1),
                    Value::Scalar(s) => scalar_str(&s),
                };
                parts.push(format!("p{}={}", item.index, v));
            }
            format!("[{}]", parts.join(","))
        }
    }
}

fn to_scalar(v: &PV) -> Option<ScalarValue> {
    Some(match v {
        PV::Int(i) => ScalarValue::Int(*i),
        PV::Uint(u) => ScalarValue::Uint(*u),
        PV::Counter(i) => ScalarValue::counter(*i),
        PV::Ts(i) => ScalarValue::Timestamp(*i),
        PV::Bool(b) => ScalarValue::Boolean(*b),
        PV::Null => ScalarValue::Null,
        PV::F64(f) => ScalarValue::F64(*f),
        PV::Str(s) => ScalarValue::Str(s.as_str().into()),
        PV::Bytes(b) => ScalarValue::Bytes(b.clone()),
        PV::Obj(_) => return None,
    })
}

/// The C layer's documented position contract for list calls (`adjust!` in automerge-c/src/doc/list.rs):
/// `0 <= pos <= AMobjSize` or `SIZE_MAX` for "the last item"; an empty list can only be inserted into.
/// Returns None where the C API reports "Invalid pos".
fn c_adjust(pos: usize, insert: bool, len: usize) -> Option<(usize, bool)> {
    let insert = insert || len == 0;
    let end = if insert { len } else { len - 1 };
    if pos > end && pos != usize::MAX {
        return None;
    }
    Some((pos.min(end), insert))
}

/// `clamp!` of automerge-c/src/doc/utils.rs (AMsplice, AMspliceText)
fn c_clamp(pos: usize, len: usize) -> Option<usize> {
    if pos > len && pos != usize::MAX {
        return None;
    }
    Some(pos.min(len))
}

impl Ref {
    fn doc(&mut self, k: usize) -> Option<&mut AutoCommit> {
        match self.slots.get_mut(&k) {
            Some(Slot::Doc(d)) => Some(d),
            _ => None,
        }
    }
    fn obj(&self, o: &O) -> Option<ObjId> {
        match o {
            O::Root => Some(ROOT),
            O::S(k) => match self.slots.get(k) {
                Some(Slot::Obj(id)) => Some(id.clone()),
                _ => None,
            },
        }
    }
    fn bytes(&self, k: usize) -> Option<Vec<u8>> {
        match self.slots.get(&k) {
            Some(Slot::Bytes(b)) => Some(b.clone()),
            _ => None,
        }
    }

    /// does every operand of the command name a live handle of the right kind? (the family only
    /// contains programs over valid handles: a line whose producer failed is left out)
    pub fn operands_ok(&self, c: &Cmd) -> bool {
        let is_doc = |k: &usize| matches!(self.slots.get(k), Some(Slot::Doc(_)));
        let is_obj = |o: &O| match o {
            O::Root => true,
            O::S(k) => matches!(self.slots.get(k), Some(Slot::Obj(_))),
        };
        let is_bytes = |k: &usize| matches!(self.slots.get(k), Some(Slot::Bytes(_)));
        let is_state = |k: &usize| matches!(self.slots.get(k), Some(Slot::State(_)));
        let is_msg = |k: &usize| matches!(self.slots.get(k), Some(Slot::Msg(Some(_))));
        match c {
            Cmd::Create(_) | Cmd::CreateStr(_) | Cmd::SyncInit => true,
            Cmd::SetActor(k, _) | Cmd::GetActor(k) | Cmd::Rollback(k) | Cmd::Pending(k) | Cmd::Save(k) | Cmd::SaveInc(k) | Cmd::Fork(k) | Cmd::CloneDoc(k) | Cmd::Heads(k) | Cmd::Missing(k) | Cmd::Changes(k) | Cmd::LastLocal(k) | Cmd::Dump(k) | Cmd::Commit(k, _, _) | Cmd::Empty(k, _, _) => is_doc(k),
            Cmd::MPut(k, o, _, _) | Cmd::MDel(k, o, _) | Cmd::MInc(k, o, _, _) | Cmd::MGet(k, o, _) | Cmd::MGetAll(k, o, _) => is_doc(k) && is_obj(o),
            Cmd::LPut(k, o, _, _, _) | Cmd::LDel(k, o, _) | Cmd::LInc(k, o, _, _) | Cmd::LGet(k, o, _) | Cmd::LGetAll(k, o, _) | Cmd::GetCursor(k, o, _) | Cmd::TSplice(k, o, _, _, _) | Cmd::LRange(k, o, _, _) => is_doc(k) && is_obj(o),
            Cmd::Keys(k, o) | Cmd::Size(k, o) | Cmd::OType(k, o) | Cmd::Text(k, o) | Cmd::Items(k, o) | Cmd::MRange(k, o) => is_doc(k) && is_obj(o),
            Cmd::Load(b) | Cmd::Dec(b) | Cmd::StateDec(b) => is_bytes(b),
            Cmd::LoadInc(k, b) => is_doc(k) && is_bytes(b),
            Cmd::ForkAt(k, h) => is_doc(k) && matches!(self.slots.get(h), Some(Slot::Hashes(_))),
            Cmd::Merge(a, b) | Cmd::Equal(a, b) => is_doc(a) && is_doc(b) && a != b,
            Cmd::ApplyChanges(k, r) => is_doc(k) && matches!(self.slots.get(r), Some(Slot::Changes(_))),
            Cmd::ChangeFromBytes(r) => matches!(self.slots.get(r), Some(Slot::Changes(c)) if !c.is_empty()),
            Cmd::CursorPos(k, o, c) => is_doc(k) && is_obj(o) && matches!(self.slots.get(c), Some(Slot::Cursor(_))),
            Cmd::Gen(k, s) => is_doc(k) && is_state(s),
            Cmd::Enc(m) => is_msg(m),
            Cmd::Recv(k, s, m) => is_doc(k) && is_state(s) && is_msg(m),
            Cmd::StateEnc(s) => is_state(s),
            Cmd::Cat(a, b) => matches!(self.slots.get(a), Some(Slot::Hashes(_))) && matches!(self.slots.get(b), Some(Slot::Hashes(_))),
            Cmd::Free(k) => self.slots.contains_key(k),
        }
    }

    /// executes one line; returns the text the driver must print after "<lineno> <op> "
    pub fn exec(&mut self, (dst, c): &Line) -> String {
        let mut store: Option<Slot> = None;
        let out: String = match c {
            Cmd::Create(a) => {
                store = Some(Slot::Doc(Box::new(AutoCommit::new().with_actor(ActorId::from(a.as_slice())))));
                "OK 1 doc".into()
            }
            Cmd::CreateStr(s) => match s.parse::<ActorId>() {
                Ok(a) => {
                    store = Some(Slot::Doc(Box::new(AutoCommit::new().with_actor(a))));
                    "OK 1 doc".into()
                }
                Err(_) => "ERR".into(),
            },
            Cmd::SetActor(k, a) => {
                let d = self.doc(*k).unwrap();
                d.set_actor(ActorId::from(a.as_slice()));
                store = Some(Slot::Other);
                "OK 1 void".into()
            }
            Cmd::GetActor(k) => {
                let a = self.doc(*k).unwrap().get_actor().clone();
                store = Some(Slot::Other);
                format!("OK 1 actor:{}/{}", hx(a.to_bytes()), a.to_hex_string())
            }
            Cmd::MPut(k, o, key, v) => {
                let obj = self.obj(o).unwrap();
                let d = self.doc(*k).unwrap();
                match v {
                    PV::Obj(t) => match d.put_object(&obj, key.as_str(), *t) {
                        Ok(id) => {
                            let s = format!("OK 1 k{}=obj:{}:{}", hx(key.as_bytes()), otype_name(*t), id_str(&id));
                            store = Some(Slot::Obj(id));
                            s
                        }
                        Err(_) => {
                            store = Some(Slot::Err);
                            "ERR".into()
                        }
                    },
                    _ => match d.put(&obj, key.as_str(), to_scalar(v).unwrap()) {
                        Ok(()) => {
                            store = Some(Slot::Other);
                            "OK 1 -=void".into()
                        }
                        Err(_) => {
                            store = Some(Slot::Err);
                            "ERR".into()
                        }
                    },
                }
            }
            Cmd::LPut(k, o, pos, ins, v) => {
                let obj = self.obj(o).unwrap();
                let d = self.doc(*k).unwrap();
                let Some((pos, ins)) = c_adjust(*pos, *ins, d.length(&obj)) else {
                    if let Some(dd) = dst {
                        self.slots.insert(*dd, Slot::Err);
                    }
                    return "ERR".into();
                };
                let (pos, ins) = (&pos, &ins);
                match v {
                    PV::Obj(t) => {
                        let r = if *ins { d.insert_object(&obj, *pos, *t) } else { d.put_object(&obj, *pos, *t) };
                        match r {
                            Ok(id) => {
                                let s = format!("OK 1 p{}=obj:{}:{}", pos, otype_name(*t), id_str(&id));
                                store = Some(Slot::Obj(id));
                                s
                            }
                            Err(_) => {
                                store = Some(Slot::Err);
                                "ERR".into()
                            }
                        }
                    }
                    _ => {
                        let sv = to_scalar(v).unwrap();
                        let r = if *ins { d.insert(&obj, *pos, sv) } else { d.put(&obj, *pos, sv) };
                        store = Some(if r.is_ok() { Slot::Other } else { Slot::Err });
                        if r.is_ok() { "OK 1 -=void".into() } else { "ERR".into() }
                    }
                }
            }
            Cmd::MDel(k, o, key) => {
                let obj = self.obj(o).unwrap();
                let r = self.doc(*k).unwrap().delete(&obj, key.as_str());
                store = Some(Slot::Other);
                if r.is_ok() { "OK 1 void".into() } else { "ERR".into() }
            }
            Cmd::LDel(k, o, pos) => {
                let obj = self.obj(o).unwrap();
                let Some((pos, _)) = c_adjust(*pos, false, self.doc(*k).unwrap().length(&obj)) else {
                    if let Some(dd) = dst {
                        self.slots.insert(*dd, Slot::Err);
                    }
                    return "ERR".into();
                };
                let r = self.doc(*k).unwrap().delete(&obj, pos);
                store = Some(Slot::Other);
                if r.is_ok() { "OK 1 void".into() } else { "ERR".into() }
            }
            Cmd::MInc(k, o, key, n) => {
                let obj = self.obj(o).unwrap();
                let r = self.doc(*k).unwrap().increment(&obj, key.as_str(), *n);
                store = Some(Slot::Other);
                if r.is_ok() { "OK 1 void".into() } else { "ERR".into() }
            }
            Cmd::LInc(k, o, pos, n) => {
                let obj = self.obj(o).unwrap();
                let Some((pos, _)) = c_adjust(*pos, false, self.doc(*k).unwrap().length(&obj)) else {
                    if let Some(dd) = dst {
                        self.slots.insert(*dd, Slot::Err);
                    }
                    return "ERR".into();
                };
                let r = self.doc(*k).unwrap().increment(&obj, pos, *n);
                store = Some(Slot::Other);
                if r.is_ok() { "OK 1 void".into() } else { "ERR".into() }
            }
            Cmd::TSplice(k, o, pos, del, t) => {
                let obj = self.obj(o).unwrap();
                let Some(pos) = c_clamp(*pos, self.doc(*k).unwrap().length(&obj)) else {
                    if let Some(dd) = dst {
                        self.slots.insert(*dd, Slot::Err);
                    }
                    return "ERR".into();
                };
                let r = self.doc(*k).unwrap().splice_text(&obj, pos, *del, t);
                store = Some(Slot::Other);
                if r.is_ok() { "OK 1 void".into() } else { "ERR".into() }
            }
            Cmd::Commit(k, m, t) => {
                let h = self.doc(*k).unwrap().commit_with(CommitOptions::default().with_message(m.clone()).with_time(*t));
                store = Some(Slot::Hashes(h.into_iter().collect()));
                match h {
                    Some(h) => format!("OK 1 hash:{}", hx(h.as_ref())),
                    None => "OK 1 void".into(),
                }
            }
            Cmd::Empty(k, m, t) => {
                let h = self.doc(*k).unwrap().empty_change(CommitOptions::default().with_message(m.clone()).with_time(*t));
                store = Some(Slot::Hashes(vec![h]));
                format!("OK 1 hash:{}", hx(h.as_ref()))
            }
            Cmd::Rollback(k) => format!("{}", self.doc(*k).unwrap().rollback()),
            Cmd::Pending(k) => format!("{}", self.doc(*k).unwrap().pending_ops()),
            Cmd::Save(k) => {
                let b = self.doc(*k).unwrap().save();
                let s = format!("OK 1 bytes:{}", hx(&b));
                store = Some(Slot::Bytes(b));
                s
            }
            Cmd::SaveInc(k) => {
                let b = self.doc(*k).unwrap().save_incremental();
                let s = format!("OK 1 bytes:{}", hx(&b));
                store = Some(Slot::Bytes(b));
                s
            }
            Cmd::Load(b) => match AutoCommit::load(&self.bytes(*b).unwrap()) {
                Ok(d) => {
                    store = Some(Slot::Doc(Box::new(d)));
                    "OK 1 doc".into()
                }
                Err(_) => {
                    store = Some(Slot::Err);
                    "ERR".into()
                }
            },
            Cmd::LoadInc(k, b) => {
                let bytes = self.bytes(*b).unwrap();
                let r = self.doc(*k).unwrap().load_incremental(&bytes);
                store = Some(Slot::Other);
                match r {
                    Ok(n) => format!("OK 1 uint:{}", n),
                    Err(_) => "ERR".into(),
                }
            }
            Cmd::Fork(k) => {
                let f = self.doc(*k).unwrap().fork();
                store = Some(Slot::Doc(Box::new(f)));
                "OK 1 doc".into()
            }
            Cmd::ForkAt(k, h) => {
                let heads = match self.slots.get(h) {
                    Some(Slot::Hashes(v)) => v.clone(),
                    _ => vec![],
                };
                match self.doc(*k).unwrap().fork_at(&heads) {
                    Ok(f) => {
                        store = Some(Slot::Doc(Box::new(f)));
                        "OK 1 doc".into()
                    }
                    Err(_) => {
                        store = Some(Slot::Err);
                        "ERR".into()
                    }
                }
            }
            Cmd::CloneDoc(k) => {
                let f = self.doc(*k).unwrap().clone();
                store = Some(Slot::Doc(Box::new(f)));
                "OK 1 doc".into()
            }
            Cmd::Merge(a, b) => {
                if a == b {
                    // the C signature takes two pointers; aliasing them is outside the alphabet
                    store = Some(Slot::Other);
                    "SKIP".into()
                } else {
                    let mut src = match self.slots.remove(b) {
                        Some(Slot::Doc(d)) => d,
                        _ => panic!("merge source"),
                    };
                    let r = self.doc(*a).unwrap().merge(&mut src);
                    self.slots.insert(*b, Slot::Doc(src));
                    match r {
                        Ok(h) => {
                            let s = hashes_str(&h);
                            store = Some(Slot::Hashes(h));
                            s
                        }
                        Err(_) => {
                            store = Some(Slot::Err);
                            "ERR".into()
                        }
                    }
                }
            }
            Cmd::Equal(a, b) => {
                let mut db = match self.slots.remove(b) {
                    Some(Slot::Doc(d)) => d,
                    _ => panic!("equal"),
                };
                let da = self.doc(*a).unwrap();
                let eq = da.document().get_heads() == db.document().get_heads();
                let _ = db.get_heads();
                let _ = da.get_heads();
                self.slots.insert(*b, Slot::Doc(db));
                format!("{}", eq as u8)
            }
            Cmd::Heads(k) => {
                let h = self.doc(*k).unwrap().get_heads();
                let s = hashes_str(&h);
                store = Some(Slot::Hashes(h));
                s
            }
            Cmd::Missing(k) => {
                let h = self.doc(*k).unwrap().get_missing_deps(&[]);
                let s = hashes_str(&h);
                store = Some(Slot::Hashes(h));
                s
            }
            Cmd::Changes(k) => {
                let ch = self.doc(*k).unwrap().get_changes(&[]);
                let mut s = format!("OK {}", ch.len());
                for c in ch.iter() {
                    s.push(' ');
                    s.push_str(&change_str(c));
                }
                store = Some(Slot::Changes(ch));
                s
            }
            Cmd::LastLocal(k) => {
                let c = self.doc(*k).unwrap().get_last_local_change();
                let s = match &c {
                    Some(c) => format!("OK 1 {}", change_str(c)),
                    None => "OK 1 void".into(),
                };
                store = Some(Slot::Changes(c.into_iter().collect()));
                s
            }
            Cmd::ApplyChanges(k, r) => {
                let ch = match self.slots.get(r) {
                    Some(Slot::Changes(c)) => c.clone(),
                    _ => vec![],
                };
                let res = self.doc(*k).unwrap().apply_changes(ch);
                store = Some(Slot::Other);
                if res.is_ok() { "OK 1 void".into() } else { "ERR".into() }
            }
            Cmd::ChangeFromBytes(r) => {
                let raw = match self.slots.get(r) {
                    Some(Slot::Changes(c)) => c.first().map(|c| c.raw_bytes().to_vec()).unwrap_or_default(),
                    _ => vec![],
                };
                match Change::from_bytes(raw) {
                    Ok(c) => {
                        let s = format!("OK 1 {}", change_str(&c));
                        store = Some(Slot::Changes(vec![c]));
                        s
                    }
                    Err(_) => {
                        store = Some(Slot::Err);
                        "ERR".into()
                    }
                }
            }
            Cmd::MGet(k, o, key) => {
                let obj = self.obj(o).unwrap();
                let r = self.doc(*k).unwrap().get(&obj, key.as_str());
                store = Some(Slot::Other);
                match r {
                    Ok(Some((v, id))) => {
                        if let Value::Object(_) = v {
                            store = Some(Slot::Obj(id.clone()));
                        }
                        format!("OK 1 k{}={}", hx(key.as_bytes()), value_str(&v, &id, true))
                    }
                    Ok(None) => "OK 1 -=void".into(),
                    Err(_) => "ERR".into(),
                }
            }
            Cmd::LGet(k, o, pos) => {
                let obj = self.obj(o).unwrap();
                let Some((pos, _)) = c_adjust(*pos, false, self.doc(*k).unwrap().length(&obj)) else {
                    if let Some(dd) = dst {
                        self.slots.insert(*dd, Slot::Err);
                    }
                    return "ERR".into();
                };
                let pos = &pos;
                let r = self.doc(*k).unwrap().get(&obj, *pos);
                store = Some(Slot::Other);
                match r {
                    Ok(Some((v, id))) => format!("OK 1 p{}={}", pos, value_str(&v, &id, true)),
                    Ok(None) => "OK 1 -=void".into(),
                    Err(_) => "ERR".into(),
                }
            }
            Cmd::MGetAll(k, o, key) => {
                let obj = self.obj(o).unwrap();
                let r = self.doc(*k).unwrap().get_all(&obj, key.as_str());
                store = Some(Slot::Other);
                match r {
                    Ok(v) => {
                        let mut s = format!("OK {}", v.len());
                        for (v, id) in v {
                            s.push_str(&format!(" {}", value_str(&v, &id, true)));
                        }
                        s
                    }
                    Err(_) => "ERR".into(),
                }
            }
            Cmd::LGetAll(k, o, pos) => {
                let obj = self.obj(o).unwrap();
                let Some((pos, _)) = c_adjust(*pos, false, self.doc(*k).unwrap().length(&obj)) else {
                    if let Some(dd) = dst {
                        self.slots.insert(*dd, Slot::Err);
                    }
                    return "ERR".into();
                };
                let r = self.doc(*k).unwrap().get_all(&obj, pos);
                store = Some(Slot::Other);
                match r {
                    Ok(v) => {
                        let mut s = format!("OK {}", v.len());
                        for (v, id) in v {
                            s.push_str(&format!(" {}", value_str(&v, &id, true)));
                        }
                        s
                    }
                    Err(_) => "ERR".into(),
                }
            }
            Cmd::Keys(k, o) => {
                let obj = self.obj(o).unwrap();
                let keys: Vec<String> = self.doc(*k).unwrap().keys(&obj).collect();
                store = Some(Slot::Other);
                let mut s = format!("OK {}", keys.len());
                for key in keys {
                    s.push_str(&format!(" str:{}", hx(key.as_bytes())));
                }
                s
            }
            Cmd::Size(k, o) => {
                let obj = self.obj(o).unwrap();
                format!("{}", self.doc(*k).unwrap().length(&obj))
            }
            Cmd::OType(k, o) => {
                let obj = self.obj(o).unwrap();
                let t = if obj == ROOT { Some(ObjType::Map) } else { self.doc(*k).unwrap().object_type(&obj).ok() };
                format!(
                    "{}",
                    match t {
                        Some(ObjType::List) => 1,
                        Some(ObjType::Map) | Some(ObjType::Table) => 2,
                        Some(ObjType::Text) => 3,
                        None => 0,
                    }
                )
            }
            Cmd::Text(k, o) => {
                let obj = self.obj(o).unwrap();
                let r = self.doc(*k).unwrap().text(&obj);
                store = Some(Slot::Other);
                match r {
                    Ok(t) => format!("OK 1 str:{}", hx(t.as_bytes())),
                    Err(_) => "ERR".into(),
                }
            }
            Cmd::Items(k, o) => {
                let obj = self.obj(o).unwrap();
                let d = self.doc(*k).unwrap();
                let vals: Vec<(Value<'_>, ObjId)> = d.values(&obj).collect();
                store = Some(Slot::Other);
                let mut s = format!("OK {}", vals.len());
                for (v, id) in vals {
                    s.push_str(&format!(" {}", value_str(&v, &id, true)));
                }
                s
            }
            Cmd::MRange(k, o) => {
                let obj = self.obj(o).unwrap();
                let d = self.doc(*k).unwrap();
                let items: Vec<String> = d.map_range(&obj, ..).map(|i| format!("k{}={}", hx(i.key.as_bytes()), value_str(&i.value.clone().into_value(), &i.id(), true))).collect();
                store = Some(Slot::Other);
                format!("OK {}{}{}", items.len(), if items.is_empty() { "" } else { " " }, items.join(" "))
            }
            Cmd::LRange(k, o, a, b) => {
                let obj = self.obj(o).unwrap();
                let d = self.doc(*k).unwrap();
                let items: Vec<String> = d.list_range(&obj, *a..*b).map(|i| format!("p{}={}", i.index, value_str(&i.value.clone().into_value(), &i.id(), true))).collect();
                store = Some(Slot::Other);
                format!("OK {}{}{}", items.len(), if items.is_empty() { "" } else { " " }, items.join(" "))
            }
            Cmd::GetCursor(k, o, pos) => {
                let obj = self.obj(o).unwrap();
                match self.doc(*k).unwrap().get_cursor(&obj, *pos, None) {
                    Ok(c) => {
                        let s = format!("OK 1 cursor:{}", c);
                        store = Some(Slot::Cursor(c));
                        s
                    }
                    Err(_) => {
                        store = Some(Slot::Err);
                        "ERR".into()
                    }
                }
            }
            Cmd::CursorPos(k, o, c) => {
                let obj = self.obj(o).unwrap();
                let cur = match self.slots.get(c) {
                    Some(Slot::Cursor(c)) => c.clone(),
                    _ => panic!("cursor slot"),
                };
                store = Some(Slot::Other);
                match self.doc(*k).unwrap().get_cursor_position(&obj, &cur, None) {
                    Ok(p) => format!("OK 1 uint:{}", p),
                    Err(_) => "ERR".into(),
                }
            }
            Cmd::SyncInit => {
                store = Some(Slot::State(Box::new(sync::State::new())));
                "OK 1 syncstate".into()
            }
            Cmd::Gen(k, s) => {
                let mut st = match self.slots.remove(s) {
                    Some(Slot::State(st)) => st,
                    _ => panic!("state slot"),
                };
                let m = self.doc(*k).unwrap().sync().generate_sync_message(&mut st);
                self.slots.insert(*s, Slot::State(st));
                let out = if m.is_some() { "OK 1 syncmessage" } else { "OK 1 void" };
                store = Some(Slot::Msg(m));
                out.into()
            }
            Cmd::Enc(m) => match self.slots.get(m) {
                Some(Slot::Msg(Some(msg))) => {
                    let b = msg.clone().encode();
                    let s = format!("OK 1 bytes:{}", hx(&b));
                    store = Some(Slot::Bytes(b));
                    s
                }
                _ => {
                    store = Some(Slot::Err);
                    "ERR".into()
                }
            },
            Cmd::Dec(b) => match sync::Message::decode(&self.bytes(*b).unwrap()) {
                Ok(m) => {
                    store = Some(Slot::Msg(Some(m)));
                    "OK 1 syncmessage".into()
                }
                Err(_) => {
                    store = Some(Slot::Err);
                    "ERR".into()
                }
            },
            Cmd::Recv(k, s, m) => {
                let msg = match self.slots.get(m) {
                    Some(Slot::Msg(Some(x))) => x.clone(),
                    _ => panic!("message slot"),
                };
                let mut st = match self.slots.remove(s) {
                    Some(Slot::State(st)) => st,
                    _ => panic!("state slot"),
                };
                let r = self.doc(*k).unwrap().sync().receive_sync_message(&mut st, msg);
                self.slots.insert(*s, Slot::State(st));
                store = Some(Slot::Other);
                if r.is_ok() { "OK 1 void".into() } else { "ERR".into() }
            }
            Cmd::StateEnc(s) => match self.slots.get(s) {
                Some(Slot::State(st)) => {
                    let b = st.encode();
                    let out = format!("OK 1 bytes:{}", hx(&b));
                    store = Some(Slot::Bytes(b));
                    out
                }
                _ => panic!("state slot"),
            },
            Cmd::StateDec(b) => match sync::State::decode(&self.bytes(*b).unwrap()) {
                Ok(st) => {
                    store = Some(Slot::State(Box::new(st)));
                    "OK 1 syncstate".into()
                }
                Err(_) => {
                    store = Some(Slot::Err);
                    "ERR".into()
                }
            },
            Cmd::Dump(k) => dump(self.doc(*k).unwrap(), &ROOT, 0),
            Cmd::Cat(a, b) => {
                // concatenation of two hash results
                let mut all = vec![];
                for k in [a, b] {
                    if let Some(Slot::Hashes(h)) = self.slots.get(k) {
                        all.extend(h.iter().cloned());
                    }
                }
                let s = hashes_str(&all);
                store = Some(Slot::Hashes(all));
                s
            }
            Cmd::Free(k) => {
                self.slots.remove(k);
                "ok".into()
            }
        };
        if let (Some(d), Some(s)) = (dst, store) {
            self.slots.insert(*d, s);
        }
        out
    }
}

// ------------------------------------------------------------------------------------------
// program family

const A0: [u8; 1] = [0x10];
const A1: [u8; 2] = [0x20, 0xff];

/// slots of the prefix
const D0: usize = 0;
const OM: usize = 1;
const OL: usize = 2;
const OT: usize = 3;
const D1: usize = 9;

fn prefix() -> Vec<Line> {
    vec![
        (Some(D0), Cmd::Create(A0.to_vec())),
        (Some(OM), Cmd::MPut(D0, O::Root, "m".into(), PV::Obj(ObjType::Map))),
        (Some(OL), Cmd::MPut(D0, O::Root, "l".into(), PV::Obj(ObjType::List))),
        (Some(OT), Cmd::MPut(D0, O::Root, "t".into(), PV::Obj(ObjType::Text))),
        (Some(4), Cmd::MPut(D0, O::Root, "c".into(), PV::Counter(10))),
        (Some(5), Cmd::LPut(D0, O::S(OL), 0, true, PV::Int(1))),
        (Some(6), Cmd::TSplice(D0, O::S(OT), 0, 0, "ab".into())),
        (Some(7), Cmd::Commit(D0, "base".into(), 1)),
        (Some(D1), Cmd::Fork(D0)),
        (Some(8), Cmd::SetActor(D1, A1.to_vec())),
    ]
}

/// one step of the alphabet: a few lines using slots from `base` upwards
#[derive(Clone, Debug)]
pub struct Step {
    pub name: String,
    pub lines: Vec<Line>,
}

fn steps_for(doc: usize, other: usize, base: usize, level: u8, t: i64) -> Vec<Step> {
    let rich = level >= 2;
    let mut v: Vec<Step> = vec![];
    fn push_one(v: &mut Vec<Step>, doc: usize, base: usize, name: &str, c: Cmd) {
        v.push(Step { name: format!("{}@D{}", name, doc), lines: vec![(Some(base), c)] });
    }
    macro_rules! one {
        ($name:expr, $c:expr) => {
            push_one(&mut v, doc, base, $name, $c)
        };
    }
    let vals: Vec<(&str, PV)> = if rich {
        vec![
            ("int", PV::Int(-5)),
            ("uint", PV::Uint(u64::MAX)),
            ("str", PV::Str("é😀".into())),
            ("emptystr", PV::Str("".into())),
            ("f64", PV::F64(-0.5)),
            ("bool", PV::Bool(true)),
            ("null", PV::Null),
            ("bytes", PV::Bytes(vec![0, 255])),
            ("emptybytes", PV::Bytes(vec![])),
            ("counter", PV::Counter(3)),
            ("ts", PV::Ts(-1)),
            ("map", PV::Obj(ObjType::Map)),
            ("list", PV::Obj(ObjType::List)),
            ("text", PV::Obj(ObjType::Text)),
        ]
    } else if level == 1 {
        vec![("int", PV::Int(-5)), ("str", PV::Str("é😀".into())), ("counter", PV::Counter(3)), ("map", PV::Obj(ObjType::Map))]
    } else {
        vec![("int", PV::Int(-5)), ("map", PV::Obj(ObjType::Map))]
    };
    for (n, val) in vals.iter() {
        one!(&format!("mput-root-{}", n), Cmd::MPut(doc, O::Root, "k".into(), val.clone()));
        one!(&format!("linsert0-{}", n), Cmd::LPut(doc, O::S(OL), 0, true, val.clone()));
    }
    one!("mput-over-counter", Cmd::MPut(doc, O::Root, "c".into(), PV::Int(0)));
    one!("mput-nested", Cmd::MPut(doc, O::S(OM), "x".into(), PV::Str("v".into())));
    one!("mput-emptykey", Cmd::MPut(doc, O::Root, "".into(), PV::Int(1)));
    one!("lput0", Cmd::LPut(doc, O::S(OL), 0, false, PV::Str("z".into())));
    one!("lappend", Cmd::LPut(doc, O::S(OL), 1, true, PV::Int(2)));
    one!("lput-oob", Cmd::LPut(doc, O::S(OL), 7, false, PV::Int(2)));
    one!("ldel0", Cmd::LDel(doc, O::S(OL), 0));
    one!("ldel-oob", Cmd::LDel(doc, O::S(OL), 9));
    one!("mdel-c", Cmd::MDel(doc, O::Root, "c".into()));
    one!("mdel-l", Cmd::MDel(doc, O::Root, "l".into()));
    one!("mdel-missing", Cmd::MDel(doc, O::Root, "nope".into()));
    one!("minc", Cmd::MInc(doc, O::Root, "c".into(), 5));
    one!("minc-notcounter", Cmd::MInc(doc, O::Root, "l".into(), 1));
    one!("linc-notcounter", Cmd::LInc(doc, O::S(OL), 0, 1));
    one!("tsplice-insert", Cmd::TSplice(doc, O::S(OT), 1, 0, "é".into()));
    one!("tsplice-replace", Cmd::TSplice(doc, O::S(OT), 0, 2, "xyz".into()));
    one!("tsplice-del", Cmd::TSplice(doc, O::S(OT), 1, 1, "".into()));
    one!("tsplice-oob", Cmd::TSplice(doc, O::S(OT), 9, 0, "q".into()));
    one!("tsplice-on-map", Cmd::TSplice(doc, O::S(OM), 0, 0, "q".into()));
    one!("commit", Cmd::Commit(doc, "s".into(), t));
    one!("empty", Cmd::Empty(doc, "".into(), t));
    v.push(Step { name: format!("rollback@D{}", doc), lines: vec![(None, Cmd::Rollback(doc))] });
    one!("merge", Cmd::Merge(doc, other));
    one!("clone", Cmd::CloneDoc(doc));
    // fork and load pick a random actor: the program fixes it right away (the harness owns every choice)
    v.push(Step { name: format!("fork@D{}", doc), lines: vec![(Some(base), Cmd::Fork(doc)), (Some(base + 1), Cmd::SetActor(base, vec![0x30, doc as u8]))] });
    v.push(Step { name: format!("save-load@D{}", doc), lines: vec![(Some(base), Cmd::Save(doc)), (Some(base + 1), Cmd::Load(base)), (Some(base + 2), Cmd::SetActor(base + 1, vec![0x40, doc as u8]))] });
    v.push(Step { name: format!("saveinc-loadinc@D{}", doc), lines: vec![(Some(base), Cmd::SaveInc(doc)), (Some(base + 1), Cmd::LoadInc(other, base))] });
    v.push(Step { name: format!("changes-apply@D{}", doc), lines: vec![(Some(base), Cmd::Changes(doc)), (Some(base + 1), Cmd::ApplyChanges(other, base)), (Some(base + 2), Cmd::ChangeFromBytes(base))] });
    v.push(Step { name: format!("heads-forkat@D{}", doc), lines: vec![(Some(base), Cmd::Heads(doc)), (Some(base + 1), Cmd::ForkAt(doc, base)), (Some(base + 2), Cmd::Cat(base, base)), (Some(base + 3), Cmd::SetActor(base + 1, vec![0x50, doc as u8]))] });
    v.push(Step {
        name: format!("sync-round@D{}", doc),
        lines: vec![
            (Some(base), Cmd::SyncInit),
            (Some(base + 1), Cmd::SyncInit),
            (Some(base + 2), Cmd::Gen(doc, base)),
            (Some(base + 3), Cmd::Enc(base + 2)),
            (Some(base + 4), Cmd::Dec(base + 3)),
            (Some(base + 5), Cmd::Recv(other, base + 1, base + 4)),
            (Some(base + 6), Cmd::Gen(other, base + 1)),
            (Some(base + 7), Cmd::Recv(doc, base, base + 6)),
            (Some(base + 8), Cmd::StateEnc(base)),
            (Some(base + 9), Cmd::StateDec(base + 8)),
        ],
    });
    v.push(Step { name: format!("cursor@D{}", doc), lines: vec![(Some(base), Cmd::GetCursor(doc, O::S(OT), 1)), (Some(base + 1), Cmd::CursorPos(doc, O::S(OT), base))] });
    if level == 0 {
        const MINI: [&str; 15] = ["mput-root-", "linsert0-", "ldel0@", "mdel-c@", "minc@", "tsplice-insert@", "commit@", "rollback@", "merge@", "fork@", "save-load@", "saveinc-loadinc@", "changes-apply@", "sync-round@", "cursor@"];
        v.retain(|s| MINI.iter().any(|m| s.name.starts_with(m)));
    }
    v
}

/// the reads applied to every final state, on every live document
fn suffix(docs: &[usize], base: usize) -> Vec<Line> {
    let mut v: Vec<Line> = vec![];
    let mut k = base;
    let mut push = |v: &mut Vec<Line>, c: Cmd, keep: bool| {
        if keep {
            v.push((Some(k), c));
            k += 1;
        } else {
            v.push((None, c));
        }
    };
    for &d in docs {
        push(&mut v, Cmd::Pending(d), false);
        push(&mut v, Cmd::Dump(d), false);
        push(&mut v, Cmd::Heads(d), true);
        push(&mut v, Cmd::Changes(d), true);
        push(&mut v, Cmd::LastLocal(d), true);
        push(&mut v, Cmd::Missing(d), true);
        push(&mut v, Cmd::GetActor(d), true);
        push(&mut v, Cmd::Save(d), true);
        for o in [O::Root, O::S(OM), O::S(OL), O::S(OT)] {
            push(&mut v, Cmd::Size(d, o.clone()), false);
            push(&mut v, Cmd::OType(d, o.clone()), false);
            push(&mut v, Cmd::Keys(d, o.clone()), true);
            push(&mut v, Cmd::Items(d, o.clone()), true);
        }
        push(&mut v, Cmd::MRange(d, O::Root), true);
        push(&mut v, Cmd::MRange(d, O::S(OM)), true);
        push(&mut v, Cmd::LRange(d, O::S(OL), 0, 99), true);
        push(&mut v, Cmd::LRange(d, O::S(OL), 1, 2), true);
        push(&mut v, Cmd::Text(d, O::S(OT)), true);
        push(&mut v, Cmd::Text(d, O::S(OL)), true);
        for key in ["c", "k", "l", "", "nope"] {
            push(&mut v, Cmd::MGet(d, O::Root, key.into()), true);
        }
        push(&mut v, Cmd::MGetAll(d, O::Root, "k".into()), true);
        push(&mut v, Cmd::MGetAll(d, O::Root, "c".into()), true);
        push(&mut v, Cmd::LGet(d, O::S(OL), 0), true);
        push(&mut v, Cmd::LGet(d, O::S(OL), 5), true);
        push(&mut v, Cmd::LGetAll(d, O::S(OL), 0), true);
    }
    v
}

pub struct Program {
    pub name: String,
    pub lines: Vec<Line>,
}

/// slots live at the end of `lines`, and which of them hold documents
/// the program without the lines whose operands are not live handles of the right kind
fn sanitize(lines: &[Line]) -> Vec<Line> {
    let mut r = Ref::default();
    let mut out = vec![];
    for l in lines {
        if r.operands_ok(&l.1) {
            let _ = r.exec(l);
            out.push(l.clone());
        }
    }
    out
}

fn live_slots(lines: &[Line]) -> (Vec<usize>, Vec<usize>) {
    let mut r = Ref::default();
    for l in lines {
        let _ = r.exec(l);
    }
    let all: Vec<usize> = r.slots.keys().cloned().collect();
    let docs: Vec<usize> = r.slots.iter().filter(|(_, s)| matches!(s, Slot::Doc(_))).map(|(k, _)| *k).collect();
    (all, docs)
}

pub fn programs(depth: usize, rich: u8, free_modes: &[usize]) -> Vec<Program> {
    let mut out = vec![];
    let pre = prefix();
    // all step sequences up to `depth`
    fn rec(out: &mut Vec<(String, Vec<Line>)>, cur: (String, Vec<Line>), depth: usize, rich: u8, level: usize) {
        out.push(cur.clone());
        if depth == 0 {
            return;
        }
        let base = 20 + level * 12;
        for (doc, other) in [(D0, D1), (D1, D0)] {
            for st in steps_for(doc, other, base, rich, 10 + level as i64) {
                let mut next = cur.clone();
                next.0 = format!("{} {}", next.0, st.name);
                next.1.extend(st.lines);
                rec(out, next, depth - 1, rich, level + 1);
            }
        }
    }
    let mut seqs = vec![];
    rec(&mut seqs, ("prefix".to_string(), pre.clone()), depth, rich, 0);
    for (name, lines) in seqs {
        let lines = sanitize(&lines);
        let (_, docs) = live_slots(&lines);
        let mut body = lines.clone();
        body.extend(suffix(&docs, 100));
        let body = sanitize(&body);
        let (all, docs) = live_slots(&body);
        for &mode in free_modes {
            let mut l = body.clone();
            let order: Vec<usize> = match mode {
                0 => all.clone(),
                1 => all.iter().rev().cloned().collect(),
                _ => {
                    // documents first: object ids, hashes, byte spans and sync states outlive their document
                    let mut o: Vec<usize> = docs.clone();
                    o.extend(all.iter().filter(|k| !docs.contains(k)).cloned());
                    o
                }
            };
            for k in order {
                l.push((None, Cmd::Free(k)));
            }
            out.push(Program { name: format!("{} [free order {}]", name, mode), lines: l });
        }
    }
    out
}

pub fn expected(p: &Program) -> Vec<String> {
    let mut r = Ref::default();
    p.lines.iter().enumerate().map(|(i, l)| format!("{} {} {}", i, op_name(&l.1), r.exec(l))).collect()
}

// ------------------------------------------------------------------------------------------
// running the C side

fn driver_bin() -> PathBuf {
    crate::report::verif_root().join("target").join("cdriver").join("driver")
}

fn run_driver(file: &std::path::Path, valgrind: bool) -> Result<(String, String, Option<i32>), String> {
    let mut cmd = if valgrind {
        let mut c = std::process::Command::new("valgrind");
        c.args(["-q", "--error-exitcode=9", "--leak-check=full", "--errors-for-leak-kinds=definite,indirect", "--show-leak-kinds=definite,indirect", "--num-callers=20"]);
        c.arg(driver_bin());
        c
    } else {
        std::process::Command::new(driver_bin())
    };
    let out = cmd.arg(file).output().map_err(|e| format!("cannot run the C driver: {}", e))?;
    Ok((String::from_utf8_lossy(&out.stdout).to_string(), String::from_utf8_lossy(&out.stderr).to_string(), out.status.code()))
}

fn split_programs(out: &str) -> Vec<Vec<String>> {
    let mut v: Vec<Vec<String>> = vec![];
    for l in out.lines() {
        if l.starts_with("== ") {
            v.push(vec![]);
        } else if let Some(last) = v.last_mut() {
            last.push(l.to_string());
        }
    }
    v
}

fn write_programs(path: &std::path::Path, progs: &[&Program]) {
    let mut s = String::new();
    for p in progs {
        for l in p.lines.iter() {
            s.push_str(&to_line(l));
            s.push('\n');
        }
        s.push_str("----\n");
    }
    std::fs::write(path, s).expect("cannot write program file");
}

fn compare(rep: &Report, p: &Program, got: &[String]) {
    let exp = match guard(|| expected(p)) {
        Ok(e) => e,
        Err(pn) => {
            rep.violation(Violation::new("c-api==rust-api", format!("reference-panic@{}", pn.location), format!("the Rust API panicked on program {}: {}", p.name, pn.message)).with_case(case_of(p)));
            return;
        }
    };
    for (i, e) in exp.iter().enumerate() {
        if e.ends_with(" SKIP") {
            continue;
        }
        let g = got.get(i).map(|s| s.as_str()).unwrap_or("<missing>");
        if g != e {
            let op = op_name(&p.lines[i].1);
            rep.violation(
                Violation::new("c-api==rust-api", format!("{}", op), format!("program `{}` line {} (`{}`): the C API printed `{}`, the Rust API gives `{}`", p.name, i, to_line(&p.lines[i]), crate::report::truncate(g, 400), crate::report::truncate(e, 400)))
                    .with_case(case_of(p)),
            );
            return;
        }
    }
    if got.len() != exp.len() {
        rep.violation(Violation::new("c-api==rust-api", "line-count", format!("program `{}`: {} lines expected, the driver printed {}", p.name, exp.len(), got.len())).with_case(case_of(p)));
    }
}

fn case_of(p: &Program) -> serde_json::Value {
    json!({"engine": "c-api", "name": p.name, "program": p.lines.iter().map(to_line).collect::<Vec<_>>()})
}

/// find one program of `progs` that makes valgrind complain, by bisection
fn bisect_valgrind(dir: &std::path::Path, progs: &[&Program], tag: &str) -> Option<(usize, String)> {
    let mut lo = 0usize;
    let mut hi = progs.len();
    let mut last_err = String::new();
    while hi - lo > 1 {
        let mid = (lo + hi) / 2;
        let f = dir.join(format!("bisect-{}.txt", tag));
        write_programs(&f, &progs[lo..mid]);
        match run_driver(&f, true) {
            Ok((_, err, code)) if code != Some(0) => {
                hi = mid;
                last_err = err;
            }
            _ => lo = mid,
        }
    }
    let f = dir.join(format!("bisect-{}.txt", tag));
    write_programs(&f, &progs[lo..hi]);
    match run_driver(&f, true) {
        Ok((_, err, code)) if code != Some(0) => Some((lo, err)),
        _ => {
            if last_err.is_empty() {
                None
            } else {
                Some((lo, last_err))
            }
        }
    }
}

fn valgrind_site(err: &str) -> String {
    // first frame inside the automerge C layer / library, else the error kind
    let kind = err.lines().find(|l| l.contains("Invalid") || l.contains("lost in") || l.contains("uninitialised") || l.contains("Mismatched") || l.contains("Process terminating")).unwrap_or("valgrind error");
    let kind = kind.split("==").last().unwrap_or(kind).trim();
    let kind: String = kind.chars().filter(|c| !c.is_ascii_digit() && *c != ',').collect();
    let frame = err.lines().find(|l| (l.contains(" AM") || l.contains("automerge_core")) && (l.contains("by 0x") || l.contains("at 0x"))).map(|l| l.split(": ").nth(1).unwrap_or("").split(" (").next().unwrap_or("").to_string()).unwrap_or_default();
    format!("{}@{}", kind.split_whitespace().take(4).collect::<Vec<_>>().join("_"), frame)
}

pub fn run(args: &Args) -> i32 {
    let rep = new_report("C36", args, "model_checking");
    if !driver_bin().exists() {
        rep.machinery_error(format!("{} missing: ./check builds it (cargo build -p automerge-c, gcc cdriver/driver.c)", driver_bin().display()));
        return rep.finish("", &[], false);
    }
    let thorough = args.tier == "thorough";
    let dir = crate::report::verif_root().join("target").join("c36");
    let _ = std::fs::remove_dir_all(&dir);
    let _ = std::fs::create_dir_all(&dir);
    let progs: Vec<Program> = if let Some(p) = args.opt("--replay") {
        let j = crate::report::read_replay(std::path::Path::new(&p));
        // a replay re-generates the family and picks the program by name
        let name = j["case"]["name"].as_str().unwrap_or("").to_string();
        let mut all = programs(2, 2, &[0, 1, 2]);
        if !all.iter().any(|p| p.name == name) {
            all = programs(3, 0, &[0, 1, 2]);
        }
        all.into_iter().filter(|p| p.name == name).collect()
    } else if thorough {
        let mut v = programs(2, 2, &[0, 1, 2]);
        v.extend(programs(3, 0, &[1]));
        v
    } else {
        let mut v = programs(1, 2, &[0, 1, 2]);
        v.extend(programs(2, 0, &[2]));
        v
    };
    // the same program can come out of two families
    let mut seen = std::collections::HashSet::new();
    let progs: Vec<Program> = progs.into_iter().filter(|p| seen.insert(p.name.clone())).collect();
    // native run: every program, output compared line by line
    let shards = 16usize;
    let refs: Vec<&Program> = progs.iter().collect();
    let chunks: Vec<Vec<&Program>> = (0..shards).map(|s| refs.iter().enumerate().filter(|(i, _)| i % shards == s).map(|(_, p)| *p).collect()).collect();
    let lines_total: u64 = progs.iter().map(|p| p.lines.len() as u64).sum();
    chunks.par_iter().enumerate().for_each(|(s, chunk)| {
        if chunk.is_empty() {
            return;
        }
        let f = dir.join(format!("native-{}.txt", s));
        write_programs(&f, chunk);
        match run_driver(&f, false) {
            Ok((out, err, code)) => {
                if code != Some(0) {
                    rep.violation(Violation::new("c-api-memory-safe", format!("driver-exit:{:?}", code), format!("the C driver ended with {:?} on shard {}: {}", code, s, crate::report::truncate(&err, 400))).with_case(json!({"engine": "c-api", "shard_file": f})));
                }
                let per = split_programs(&out);
                for (i, p) in chunk.iter().enumerate() {
                    compare(&rep, p, per.get(i).map(|v| v.as_slice()).unwrap_or(&[]));
                }
            }
            Err(e) => rep.machinery_error(e),
        }
    });
    rep.count("evaluations", lines_total);
    rep.count("programs", progs.len() as u64);
    // model-checking vocabulary: a state is a distinct call sequence (prefix + steps, before the
    // read-back suffix and the free order), a transition is one executed C API call line, and every
    // program is a trace executed against the implementation through the C ABI
    let seqs: std::collections::HashSet<&str> = progs.iter().map(|p| p.name.split(" [free").next().unwrap_or("")).collect();
    rep.count("states", seqs.len() as u64);
    rep.count("transitions", lines_total);
    rep.count("traces_validated_against_impl", progs.len() as u64);
    // valgrind run: every program again under memcheck; a complaint is bisected down to one program
    let vg_ok = std::process::Command::new("valgrind").arg("--version").output().map(|o| o.status.success()).unwrap_or(false);
    if !vg_ok {
        rep.machinery_error("valgrind is not available");
    } else {
        chunks.par_iter().enumerate().for_each(|(s, chunk)| {
            if chunk.is_empty() {
                return;
            }
            let f = dir.join(format!("vg-{}.txt", s));
            write_programs(&f, chunk);
            match run_driver(&f, true) {
                Ok((_, err, code)) => {
                    if code != Some(0) {
                        let (idx, e2) = bisect_valgrind(&dir, chunk, &s.to_string()).unwrap_or((0, err.clone()));
                        let p = chunk[idx];
                        rep.violation(Violation::new("c-api-memory-safe", valgrind_site(&e2), format!("valgrind memcheck complains on program `{}`: {}", p.name, crate::report::truncate(&e2, 1200))).with_case(case_of(p)));
                    }
                }
                Err(e) => rep.machinery_error(e),
            }
        });
        rep.count("programs_under_valgrind", progs.len() as u64);
    }
    let ops: std::collections::BTreeSet<&'static str> = progs.iter().flat_map(|p| p.lines.iter().map(|l| op_name(&l.1))).collect();
    rep.count("distinct_nontrivial", ops.len() as u64);
    rep.sample(json!({"program": progs.get(progs.len() / 2).map(|p| p.name.clone())}));
    rep.finish(
        "every program of the family: a fixed prefix (create with an actor, a map, a list, a text, a counter, a list item, a text splice, a commit, a fork with another actor) + EVERY sequence of up to k steps over both documents from an alphabet of ~50 steps (puts of every scalar type and object type into the root map and the list, overwrites, nested puts, deletes incl. missing and out-of-range, increments incl. on non-counters, text splices incl. out of range and on a map, commit, empty change, rollback, merge, clone, fork, save+load, save_incremental+load_incremental into the other document, get_changes+apply_changes+AMchangeFromBytes, heads+fork at heads+AMresultCat, a full sync round with message and state encode/decode, cursor + cursor position) + a fixed suffix that reads EVERYTHING back through the C API on every live document (pending ops, recursive dump via ranges, heads, every change with all accessors and raw bytes, last local change, missing deps, actor id, save bytes, size / type / keys / items of every object, ranges, text, gets and get-alls incl. absent keys and out-of-range positions; item iterators forward, reversed and rewound) + the frees in one of three orders (creation order, reverse order, documents before everything that came out of them). Quick: k=1 over the whole alphabet with all three free orders, k=2 over a 17-step sub-alphabet; thorough: k=2 over the whole alphabet x 3 orders, k=3 over the sub-alphabet. Oracle 1: every printed line equals the line computed with the Rust API on an AutoCommit driven by the same calls (save bytes, change bytes, hashes, values, ids, errors). Oracle 2: the same programs under valgrind memcheck: no invalid access, no use of uninitialised memory, no definite or indirect leak.",
        &["the C interpreter /verif/cdriver/driver.c is trusted glue (it never uses a handle after the program freed its result)", "programs only use valid handles; aliasing the two documents of AMmerge is outside the alphabet", "built without CMake: cargo build -p automerge-c with CBINDGEN_TARGET_DIR, the two header fix-ups CMake applies, gcc"],
        true,
    )
}
