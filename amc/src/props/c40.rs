//! C40 — loading with string migration turns visible strings into text and nothing else.

use super::docpool::{run_pool, DocInfo, PoolCfg};
use super::Args;
use crate::obs::{hstr, render_value};
use crate::refmodel::ref_of_changes;
use crate::report::{Report, Violation};
use automerge::{Automerge, LoadOptions, ObjId, ObjType, Prop, ReadDoc, ScalarValue, StringMigration, Value, ROOT};
use std::sync::Arc;

fn walk(d: &Automerge, l: &Automerge, obj: &ObjId, lobj: &ObjId, ty: ObjType, path: &str) -> Result<(), Violation> {
    let slots: Vec<Prop> = match ty {
        ObjType::Map | ObjType::Table => {
            let kd: Vec<String> = d.keys(obj).collect();
            let kl: Vec<String> = l.keys(lobj).collect();
            if kd != kl {
                return Err(Violation::new("migration-keys", "keys", format!("{}: keys {:?} became {:?}", path, kd, kl)));
            }
            kd.into_iter().map(Prop::Map).collect()
        }
        ObjType::List => {
            if d.length(obj) != l.length(lobj) {
                return Err(Violation::new("migration-keys", "length", format!("{}: length {} became {}", path, d.length(obj), l.length(lobj))));
            }
            (0..d.length(obj)).map(Prop::Seq).collect()
        }
        ObjType::Text => {
            // text objects are untouched
            let (a, b) = (d.text(obj).unwrap_or_default(), l.text(lobj).unwrap_or_default());
            if a != b {
                return Err(Violation::new("migration-text-untouched", "text", format!("{}: {:?} became {:?}", path, a, b)));
            }
            return Ok(());
        }
    };
    for p in slots {
        let va = d.get_all(obj, p.clone()).map_err(|e| Violation::new("read", "get_all", format!("{:?}", e)))?;
        let vl = l.get_all(lobj, p.clone()).map_err(|e| Violation::new("read", "get_all", format!("{:?}", e)))?;
        let here = format!("{}/{}", path, p);
        // highest-id visible string
        let top_str = va.iter().rev().find_map(|(v, _)| match v {
            Value::Scalar(s) => match s.as_ref() {
                ScalarValue::Str(s) => Some(s.to_string()),
                _ => None,
            },
            _ => None,
        });
        if ty != ObjType::Table && top_str.is_some() {
            let want = top_str.unwrap();
            if vl.len() != 1 {
                return Err(Violation::new(
                    "migration-slot",
                    "values",
                    format!("{}: had {:?}, after migration {:?} (expected exactly one text)", here, va.iter().map(|v| render_value(&v.0)).collect::<Vec<_>>(), vl.iter().map(|v| render_value(&v.0)).collect::<Vec<_>>()),
                ));
            }
            match &vl[0] {
                (Value::Object(ObjType::Text), tid) => {
                    let got = l.text(tid).unwrap_or_default();
                    if got != want {
                        return Err(Violation::new("migration-content", "text", format!("{}: text {:?}, highest-id string was {:?}", here, got, want)));
                    }
                }
                (other, _) => {
                    return Err(Violation::new("migration-slot", "not-text", format!("{}: after migration holds {}", here, render_value(other))));
                }
            }
        } else {
            // unchanged: same values with the same ids, recursively
            let ra: Vec<(String, String)> = va.iter().map(|(v, i)| (render_value(v), i.to_string())).collect();
            let rl: Vec<(String, String)> = vl.iter().map(|(v, i)| (render_value(v), i.to_string())).collect();
            if ra != rl {
                return Err(Violation::new("migration-untouched", "values", format!("{}: {:?} became {:?}", here, ra, rl)));
            }
            for (v, id) in va.iter() {
                if let Value::Object(t) = v {
                    walk(d, l, id, id, *t, &here)?;
                }
            }
        }
    }
    Ok(())
}

/// no map key / list element reachable in `l` shows a string scalar
fn no_visible_strings(l: &Automerge, obj: &ObjId, ty: ObjType, path: &str) -> Result<(), Violation> {
    let slots: Vec<Prop> = match ty {
        ObjType::Map => l.keys(obj).map(Prop::Map).collect(),
        ObjType::List => (0..l.length(obj)).map(Prop::Seq).collect(),
        _ => return Ok(()),
    };
    for p in slots {
        for (v, id) in l.get_all(obj, p.clone()).unwrap_or_default() {
            match v {
                Value::Scalar(s) if matches!(s.as_ref(), ScalarValue::Str(_)) => {
                    return Err(Violation::new("migration-complete", "visible-string", format!("{}/{} still shows {:?}", path, p, s)));
                }
                Value::Object(t) => no_visible_strings(l, &id, t, &format!("{}/{}", path, p))?,
                _ => {}
            }
        }
    }
    Ok(())
}

pub fn run(args: &Args) -> i32 {
    let oracle = move |d: &Automerge, info: &DocInfo, rep: &Report| -> Result<(), Violation> {
        let bytes = d.save();
        let l = Automerge::load_with_options(&bytes, LoadOptions::new().migrate_strings(StringMigration::ConvertToText).text_encoding(info.enc))
            .map_err(|e| Violation::new("migrating-load-ok", "Err", format!("{:?}", e)))?;
        walk(d, &l, &ROOT, &ROOT, ObjType::Map, "")?;
        no_visible_strings(&l, &ROOT, ObjType::Map, "")?;
        let r = ref_of_changes(&d.get_changes(&[]), info.enc);
        if r.unsupported.is_none() && !r.any_visible_string_in_maps_or_lists() {
            if hstr(&l.get_heads()) != hstr(&d.get_heads()) {
                return Err(Violation::new("migration-noop", "heads", "document without visible strings gained a change on migrating load"));
            }
            rep.count("documents_without_strings", 1);
        } else {
            rep.count("documents_with_strings", 1);
        }
        // the migrated document saves and reloads
        let l2 = Automerge::load(&l.save()).map_err(|e| Violation::new("migrated-reload", "Err", format!("{:?}", e)))?;
        if hstr(&l2.get_heads()) != hstr(&l.get_heads()) {
            return Err(Violation::new("migrated-reload", "heads", "heads differ after save/load of the migrated document"));
        }
        Ok(())
    };
    run_pool(
        "C40",
        args,
        "model_checking",
        PoolCfg::default(),
        Arc::new(oracle),
        "every distinct document reached by the history explorer (map/list/nested themes put strings into maps, lists, nested objects; bases B1/B2 hold string-vs-string and string-vs-other conflicts and deleted strings): save, load with StringMigration::ConvertToText; walking original and migrated document together: a slot with visible strings holds exactly one text whose content is the highest-id string, every other slot keeps the same (value,id) list recursively, text objects are untouched, no reachable map key / list element still shows a string; when the reference interpreter finds no visible string in any map/list object the heads are unchanged; the migrated document saves and reloads",
        &["no claim about objects unreachable from the root", "Table objects are outside the alphabet"],
    )
}
