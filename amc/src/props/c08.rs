//! C08 — diff between any two heads transforms one state into the other.

use super::docpool::{run_pool, DocInfo, PoolCfg};
use super::Args;
use crate::graph::Graph;
use crate::obs::{hstr, reachable};
use crate::report::{Report, Violation};
use crate::view::View;
use automerge::{AutoCommit, Automerge, ChangeHash, ReadDoc};
use std::sync::Arc;

pub fn apply_all(mut v: View, patches: &[automerge::Patch], what: &str, site: &str) -> Result<View, Violation> {
    for (i, p) in patches.iter().enumerate() {
        v.apply(p).map_err(|e| {
            Violation::new(
                "patch-applies",
                format!("{}:{}", site, e.split(' ').next().unwrap_or("?")),
                format!("{}: patch {} of {} does not apply: {} (patch {:?})", what, i, patches.len(), e, p),
            )
        })?;
    }
    Ok(v)
}

pub fn check_pairs(d: &Automerge, info: &DocInfo, rep: &Report, cap: usize) -> Result<(), Violation> {
    let g = Graph::new(d.get_changes(&[]));
    let mut sets = g.head_sets_above(&info.base_hashes, cap);
    sets.push(vec![]);
    let cur = d.get_heads();
    if !sets.contains(&cur) {
        sets.push(cur.clone());
    }
    // views at every head set
    let views: Vec<View> = sets.iter().map(|h| View::of_doc(d, Some(h), info.enc)).collect();
    let mut ac = AutoCommit::load(&d.save()).map_err(|e| Violation::new("load-ok", "AutoCommit::load", format!("{:?}", e)))?;
    for (i, h1) in sets.iter().enumerate() {
        for (j, h2) in sets.iter().enumerate() {
            let what = format!("diff({:?} -> {:?})", hstr(h1), hstr(h2));
            let patches = d.diff(h1, h2);
            let got = apply_all(views[i].clone(), &patches, &what, "Automerge::diff")?;
            if let Some((aspect, diff)) = got.diff_aspect(&views[j]) {
                let dir = if g.ancestors(h2).is_superset(&g.ancestors(h1)) { "forward" } else if g.ancestors(h1).is_superset(&g.ancestors(h2)) { "backward" } else { "sideways" };
                return Err(Violation::new("diff-transforms", format!("Automerge::diff:{}:{}", dir, aspect), format!("{}: {} ; patches {}", what, diff, brief(&patches))));
            }
            rep.count("pairs", 1);
            // AutoCommit::diff twice (second call is served from the diff cache)
            if i != j {
                let p1 = ac.diff(h1, h2);
                let p2 = ac.diff(h1, h2);
                if p1 != p2 {
                    return Err(Violation::new("diff-cache", "AutoCommit::diff", format!("{}: cached diff differs from the first", what)));
                }
                let got = apply_all(views[i].clone(), &p1, &what, "AutoCommit::diff")?;
                if let Some(diff) = got.diff(&views[j]) {
                    return Err(Violation::new("diff-transforms", "AutoCommit::diff", format!("{}: {}", what, diff)));
                }
            }
        }
    }
    // per-object diffs between the base heads and the current heads, both directions
    let base_heads: Vec<ChangeHash> = g.heads_of(&info.base_hashes);
    for (a, b, ia, ib) in [(&base_heads, &cur, "base", "cur"), (&cur, &base_heads, "cur", "base")] {
        let va = View::of_doc(d, Some(a), info.enc);
        let vb = View::of_doc(d, Some(b), info.enc);
        // objects that exist at both ends
        for (obj, _) in reachable(d, Some(a)) {
            let id = obj.to_string();
            if !vb.reachable().objs.contains_key(&id) || !va.reachable().objs.contains_key(&id) {
                continue;
            }
            for recursive in [true, false] {
                let what = format!("diff_obj({}, {}->{}, recursive={})", id, ia, ib, recursive);
                let patches = d.diff_obj(&obj, a, b, recursive).map_err(|e| Violation::new("diff_obj-ok", "Err", format!("{}: {:?}", what, e)))?;
                let got = apply_all(va.clone(), &patches, &what, "diff_obj")?;
                if recursive {
                    // the subtree under obj must match: compare object by object for those under it
                    let sub = subtree(&vb, &id);
                    for k in sub {
                        if got.reachable().objs.get(&k) != vb.reachable().objs.get(&k) {
                            return Err(Violation::new(
                                "diff-transforms",
                                "diff_obj:recursive",
                                format!("{}: object {}: {:?} vs {:?}", what, k, got.objs.get(&k).map(crate::view::render_node), vb.objs.get(&k).map(crate::view::render_node)),
                            ));
                        }
                    }
                } else if !same_shallow(got.reachable().objs.get(&id), vb.reachable().objs.get(&id)) {
                    return Err(Violation::new(
                        "diff-transforms",
                        "diff_obj:non-recursive",
                        format!("{}: {:?} vs {:?}", what, got.objs.get(&id).map(crate::view::render_node), vb.objs.get(&id).map(crate::view::render_node)),
                    ));
                }
                rep.count("object_diffs", 1);
            }
        }
    }
    Ok(())
}

fn subtree(v: &View, root: &str) -> Vec<String> {
    use crate::view::{VNode, VVal};
    let mut out = vec![];
    let mut todo = vec![root.to_string()];
    while let Some(id) = todo.pop() {
        if out.contains(&id) {
            continue;
        }
        if let Some(n) = v.objs.get(&id) {
            match n {
                VNode::Map(m) => m.values().for_each(|s| {
                    if let VVal::Obj(o) = &s.val {
                        todo.push(o.clone())
                    }
                }),
                VNode::List(l) => l.iter().for_each(|s| {
                    if let VVal::Obj(o) = &s.val {
                        todo.push(o.clone())
                    }
                }),
                VNode::Text(u) => u.iter().for_each(|x| {
                    if let Some(o) = &x.obj {
                        todo.push(o.clone())
                    }
                }),
            }
            out.push(id);
        }
    }
    out
}

fn same_shallow(a: Option<&crate::view::VNode>, b: Option<&crate::view::VNode>) -> bool {
    a == b
}

pub fn run(args: &Args) -> i32 {
    let cap = if args.thorough() { 12 } else { 5 };
    let oracle = move |d: &Automerge, info: &DocInfo, rep: &Report| check_pairs(d, info, rep, cap);
    run_pool(
        "C08",
        args,
        "model_checking",
        PoolCfg { quick_scale: 0, thorough_scale: 2, merged: true, ..Default::default() },
        Arc::new(oracle),
        "every distinct document reached by the history explorer (replicas and pairwise merges): for ALL ordered pairs (H1,H2) drawn from the consistent cuts above the base, the empty heads and the current heads: a view of the state at H1 (built from reads at H1: winners, conflict flags, counters, text units, per-unit marks) patched with Automerge::diff(H1,H2) by the harness's own patch applier equals the view at H2; AutoCommit::diff twice (second from the cache) likewise; diff_obj for every object present at both ends, recursive (whole subtree) and non-recursive (the object itself equal), in both directions between base heads and current heads",
        &["the patch applier implements the nine PatchActions from their documentation; it shares no code with hydrate::Value::apply_patches"],
    )
}

pub fn brief(p: &[automerge::Patch]) -> String {
    let v: Vec<String> = p
        .iter()
        .map(|p| {
            let a = match &p.action {
                automerge::PatchAction::SpliceText { index, value, marks } => format!("SpliceText({}, {:?}, {:?})", index, value.make_string(), marks.as_ref().map(crate::obs::render_markset)),
                automerge::PatchAction::Mark { marks } => format!("Mark({:?})", marks.iter().map(|m| format!("[{},{}) {}={:?}", m.start, m.end, m.name(), m.value())).collect::<Vec<_>>()),
                other => format!("{:?}", other),
            };
            format!("{}: {}", p.obj, a)
        })
        .collect();
    format!("{:#?}", v)
}
