//! C39 — strings decoded from untrusted bytes are always valid UTF-8.

use super::{new_report, Args};
use crate::bytes::{run_engine, CorpusItem, Ctx, Kind, Oracles, Spec, Target};
use crate::world::actor;
use automerge::marks::{ExpandMark, Mark};
use automerge::sync::{self, SyncDoc};
use automerge::transaction::{CommitOptions, Transactable};
use automerge::{Automerge, ObjType, ROOT};

pub fn spec() -> (Spec, Oracles) {
    (
        Spec {
            targets: vec![Target::Load, Target::LoadDontCheck, Target::LoadIncDoc, Target::ChangeFromBytes, Target::SyncMessage, Target::Bundle],
            k: 0,
            text_depth: 0,
            // every non-ASCII byte value at every offset
            overwrite_values: Some((0x80..=0xFFu8).collect()),
            leb_extremes: false,
            mutations: true,
            short: false,
            invalid_utf8_seqs: true,
        },
        Oracles { deep: false, panics: false, consistent: false, alloc: false, utf8: true },
    )
}

/// a corpus with a sentinel string in every string position
pub fn ctx(mut c: Ctx) -> Ctx {
    let mut d = Automerge::new().with_actor(actor(0x31));
    {
        let mut tx = d.transaction();
        tx.put(ROOT, "KEYSENT", "VALSENT").unwrap();
        let l = tx.put_object(ROOT, "lst", ObjType::List).unwrap();
        tx.insert(&l, 0, "LSTSENT").unwrap();
        let t = tx.put_object(ROOT, "txt", ObjType::Text).unwrap();
        tx.splice_text(&t, 0, 0, "TXTSENT").unwrap();
        tx.mark(&t, Mark::new("MRKSENT".into(), "MVLSENT", 1, 4), ExpandMark::After).unwrap();
        tx.commit_with(CommitOptions::default().with_message("MSGSENT"));
    }
    let mut corpus = vec![];
    corpus.push(CorpusItem { name: "sentinel.save_nocompress".into(), kind: Kind::Doc, bytes: d.save_nocompress() });
    let ch = d.get_changes(&[]);
    corpus.push(CorpusItem { name: "sentinel.change".into(), kind: Kind::Change, bytes: ch[0].raw_bytes().to_vec() });
    if let Ok(b) = d.bundle(ch.iter().map(|c| c.hash())) {
        corpus.push(CorpusItem { name: "sentinel.bundle".into(), kind: Kind::Bundle, bytes: b.bytes().to_vec() });
    }
    // a sync message carrying the change
    {
        let mut a = d.clone();
        let mut b = Automerge::new();
        let (mut sa, mut sb) = (sync::State::new(), sync::State::new());
        for _ in 0..6 {
            let ma = a.generate_sync_message(&mut sa);
            let mb = b.generate_sync_message(&mut sb);
            if let Some(m) = &ma {
                if !m.changes.is_empty() {
                    corpus.push(CorpusItem { name: "sentinel.sync".into(), kind: Kind::Message, bytes: m.clone().encode() });
                }
            }
            if ma.is_none() && mb.is_none() {
                break;
            }
            if let Some(m) = ma {
                let _ = b.receive_sync_message(&mut sb, m);
            }
            if let Some(m) = mb {
                let _ = a.receive_sync_message(&mut sa, m);
            }
        }
    }
    c.corpus = corpus;
    // processing targets start from an empty document so that the sentinel change applies
    c.doc = Automerge::new().with_actor(actor(0x10));
    c
}

pub fn run(args: &Args) -> i32 {
    let rep = new_report("C39", args, "exploration");
    if let Some(p) = args.opt("--replay") {
        let j = crate::report::read_replay(std::path::Path::new(&p));
        return crate::bytes::replay_case("C39", &args.tier, j["case"]["hex"].as_str().unwrap_or(""), j["case"]["target"].as_str().unwrap_or("Load"));
    }
    let complete = run_engine("C39", &args.tier, &rep);
    rep.finish(
        "corpus with a sentinel string in every string position (map key, string values in a map and a list, text characters, mark name, mark value, commit message) as an uncompressed document, a raw change, a bundle and a sync message carrying the change; at EVERY byte offset of every encoding each of the 128 non-ASCII byte values and six classic invalid sequences (C0 80, ED A0 80, F5 80 80, E0 80, F8 88, C1 BF) is written, chunk lengths and checksums (also of the change nested in the sync message) are recomputed, and the result is fed to load (checked and unchecked heads), load_incremental, Change::from_bytes + apply_changes, Bundle and receive_sync_message; whenever the input is accepted every string the document hands out (keys, values, text, span text, mark names and values, change messages, decoded op keys) must pass std::str::from_utf8 on its bytes",
        &["non-ASCII overwrites at all offsets are a superset of 'inside the sentinels'", "worker subprocesses; a dying worker is attributed to the journaled case and re-run twice"],
        complete,
    )
}
