//! C33 — CLI JSON import / export round trip, driven through the real `automerge` binary.
//!
//! Exhaustive over a bounded family of JSON objects (every key x every scalar, every ordered
//! pair of scalars in a list and in a map, every tree shape up to a node bound over a small
//! leaf alphabet); each document goes `automerge import` -> saved bytes -> `automerge export`
//! on stdin/stdout, and the exported JSON must equal the input as a `serde_json::Value`
//! (numbers compare by kind and value).

use super::{new_report, Args};
use crate::report::Violation;
use rayon::prelude::*;
use serde_json::{json, Map, Number, Value as J};
use std::io::Write;
use std::path::PathBuf;
use std::process::{Command, Stdio};

fn cli_bin() -> PathBuf {
    crate::report::verif_root().join("target").join("repo").join("debug").join("automerge")
}

fn run_cli(args: &[&str], input: &[u8]) -> Result<Vec<u8>, String> {
    let mut c = Command::new(cli_bin()).args(args).stdin(Stdio::piped()).stdout(Stdio::piped()).stderr(Stdio::piped()).spawn().map_err(|e| format!("spawn: {}", e))?;
    {
        let mut si = c.stdin.take().unwrap();
        // the child may exit before reading everything (on a parse error)
        let _ = si.write_all(input);
    }
    let out = c.wait_with_output().map_err(|e| format!("wait: {}", e))?;
    if !out.status.success() {
        return Err(format!("`automerge {}` exits with {:?}: {}", args.join(" "), out.status.code(), String::from_utf8_lossy(&out.stderr).chars().take(300).collect::<String>()));
    }
    Ok(out.stdout)
}

fn f(x: f64) -> J {
    J::Number(Number::from_f64(x).unwrap())
}

fn scalars(thorough: bool) -> Vec<J> {
    let mut v = vec![
        J::Null,
        J::Bool(true),
        J::Bool(false),
        json!(0),
        json!(1),
        json!(-1),
        json!(i64::MIN),
        json!(i64::MAX),
        json!(i64::MAX as u64 + 1),
        json!(u64::MAX),
        json!(1u64 << 53),
        json!((1u64 << 53) + 1),
        f(0.0),
        f(1.0),
        f(-1.5),
        f(0.1),
        f(1e300),
        f(5e-324),
        f(f64::MAX),
        f(2.2250738585072014e-308),
        f(9007199254740993.0),
        f(18446744073709551616.0),
        json!(""),
        json!("a"),
        json!("é😀"),
        json!("\u{0}"),
        json!("\"\\/\n"),
        json!("\u{10FFFF}"),
        json!("1"),
        json!("null"),
    ];
    if thorough {
        v.extend(vec![
            f(-0.0),
            f(0.30000000000000004),
            f(2.2250738585072011e-308),
            f(1.7976931348623157e308),
            f(8.41e21),
            f(123456789012345680.0),
            f(4.35e-323),
            f(1e23),
            f(-9223372036854775808.0),
            json!(u32::MAX),
            json!(i32::MIN),
            json!("\u{feff}"),
            json!("\r\n\t"),
            json!("a".repeat(300)),
            json!("\u{e000}\u{fffd}"),
        ]);
    }
    v
}

fn keys(thorough: bool) -> Vec<String> {
    let mut k: Vec<String> = vec!["a".into(), "".into(), "é".into(), "😀".into(), "k.k".into(), "\n".into(), "0".into(), "_root".into()];
    if thorough {
        k.extend(vec!["\u{0}".to_string(), "\"".into(), "a b".into(), "\u{10FFFF}".into(), "k".repeat(200), "1@abcd".into()]);
    }
    k
}

fn obj(pairs: Vec<(&str, J)>) -> J {
    let mut m = Map::new();
    for (k, v) in pairs {
        m.insert(k.to_string(), v);
    }
    J::Object(m)
}

/// every tree with at most `budget` nodes: leaves from `leaves`, lists and maps (keys k0,k1,..)
fn trees(budget: usize, leaves: &[J]) -> Vec<J> {
    if budget == 0 {
        return vec![];
    }
    let mut out: Vec<J> = leaves.to_vec();
    // containers with 0..=2 children
    out.push(json!([]));
    out.push(json!({}));
    if budget >= 2 {
        for c in trees(budget - 1, leaves) {
            out.push(J::Array(vec![c.clone()]));
            out.push(obj(vec![("k0", c)]));
        }
    }
    if budget >= 3 {
        for b1 in 1..budget - 1 {
            let b2 = budget - 1 - b1;
            let (l, r) = (trees(b1, leaves), trees(b2, leaves));
            for a in l.iter() {
                for b in r.iter() {
                    out.push(J::Array(vec![a.clone(), b.clone()]));
                    out.push(obj(vec![("k0", a.clone()), ("k1", b.clone())]));
                }
            }
        }
    }
    out.sort_by_key(|x| x.to_string());
    out.dedup();
    out
}

fn kind(v: &J) -> &'static str {
    match v {
        J::Number(n) if n.is_f64() => "f64",
        J::Number(n) if n.is_i64() => "i64",
        J::Number(_) => "u64",
        J::Null => "null",
        J::Bool(_) => "bool",
        J::String(_) => "string",
        J::Array(_) => "array",
        J::Object(_) => "object",
    }
}

/// first difference between two JSON values (numbers by kind and value)
fn diff(path: &str, a: &J, b: &J) -> Option<String> {
    match (a, b) {
        (J::Object(x), J::Object(y)) => {
            for (k, v) in x {
                match y.get(k) {
                    None => return Some(format!("{}: key {:?} is missing from the export", path, k)),
                    Some(w) => {
                        if let Some(d) = diff(&format!("{}/{}", path, k.escape_debug()), v, w) {
                            return Some(d);
                        }
                    }
                }
            }
            for k in y.keys() {
                if !x.contains_key(k) {
                    return Some(format!("{}: the export has an extra key {:?}", path, k));
                }
            }
            None
        }
        (J::Array(x), J::Array(y)) => {
            if x.len() != y.len() {
                return Some(format!("{}: array of {} items exported with {}", path, x.len(), y.len()));
            }
            for (i, (v, w)) in x.iter().zip(y.iter()).enumerate() {
                if let Some(d) = diff(&format!("{}/{}", path, i), v, w) {
                    return Some(d);
                }
            }
            None
        }
        (J::Number(x), J::Number(y)) => {
            let same = if x.is_f64() || y.is_f64() { x.is_f64() && y.is_f64() && x.as_f64() == y.as_f64() } else { x == y };
            if same {
                None
            } else {
                Some(format!("{}: number {} ({}) exported as {} ({})", path, x, kind(a), y, kind(b)))
            }
        }
        _ => {
            if a == b {
                None
            } else {
                Some(format!("{}: {} {} exported as {} {}", path, kind(a), crate::report::truncate(&a.to_string(), 80), kind(b), crate::report::truncate(&b.to_string(), 80)))
            }
        }
    }
}

fn site_of(d: &str, doc: &J) -> String {
    // class of the failing value: its kind (+ number class), not the path
    let what = if d.contains("number") {
        let k = d.split('(').nth(1).and_then(|x| x.split(')').next()).unwrap_or("?");
        format!("number:{}", k)
    } else if d.contains("exits with") {
        "cli-error".to_string()
    } else if d.contains("key") {
        "key".to_string()
    } else if d.contains("array") {
        "array".to_string()
    } else {
        "value".to_string()
    };
    let depth = {
        fn dep(v: &J) -> usize {
            match v {
                J::Array(a) => 1 + a.iter().map(dep).max().unwrap_or(0),
                J::Object(o) => 1 + o.values().map(dep).max().unwrap_or(0),
                _ => 0,
            }
        }
        dep(doc)
    };
    format!("{}:depth{}", what, depth.min(3))
}

fn round_trip(doc: &J) -> Result<(), String> {
    let text = serde_json::to_string(doc).unwrap();
    let saved = run_cli(&["import"], text.as_bytes())?;
    let exported = run_cli(&["export"], &saved)?;
    let back: J = serde_json::from_slice(&exported).map_err(|e| format!("the export is not JSON: {} ({:?})", e, String::from_utf8_lossy(&exported).chars().take(200).collect::<String>()))?;
    match diff("", doc, &back) {
        None => Ok(()),
        Some(d) => Err(d),
    }
}

pub fn run(args: &Args) -> i32 {
    let rep = new_report("C33", args, "exploration");
    if !cli_bin().exists() {
        rep.machinery_error(format!("{} missing: ./check builds it with `cargo build -p automerge-cli`", cli_bin().display()));
        return rep.finish("", &[], false);
    }
    let thorough = args.tier == "thorough";
    let mut docs: Vec<J> = vec![];
    if let Some(p) = args.opt("--replay") {
        let j = crate::report::read_replay(std::path::Path::new(&p));
        docs.push(j["case"]["doc"].clone());
    } else {
        let sc = scalars(thorough);
        let ks = keys(thorough);
        docs.push(json!({}));
        // (A) every key x every scalar, at the root and one level down
        for k in ks.iter() {
            for s in sc.iter() {
                docs.push(obj(vec![(k, s.clone())]));
                docs.push(obj(vec![("o", obj(vec![(k, s.clone())]))]));
            }
        }
        // (B) every ordered pair of scalars in a list and in a map; every scalar alone in a list
        let pair_set: Vec<J> = if thorough { sc.clone() } else { sc.iter().take(22).cloned().collect() };
        for a in sc.iter() {
            docs.push(obj(vec![("l", J::Array(vec![a.clone()]))]));
        }
        for a in pair_set.iter() {
            for b in pair_set.iter() {
                docs.push(obj(vec![("l", J::Array(vec![a.clone(), b.clone()]))]));
                docs.push(obj(vec![("x", a.clone()), ("y", b.clone())]));
            }
        }
        // (C) every tree shape up to a node budget over a small leaf alphabet, under one root key
        let leaves = vec![json!(7), json!("s"), J::Null];
        for t in trees(if thorough { 5 } else { 4 }, &leaves) {
            docs.push(obj(vec![("t", t)]));
        }
        // (D) all keys at once, long lists, deep nesting
        let mut all = Map::new();
        for (i, k) in ks.iter().enumerate() {
            all.insert(k.clone(), sc[i % sc.len()].clone());
        }
        docs.push(J::Object(all));
        docs.push(obj(vec![("l", J::Array(sc.clone()))]));
        let mut deep = json!(1);
        for i in 0..if thorough { 40 } else { 12 } {
            deep = if i % 2 == 0 { J::Array(vec![deep]) } else { obj(vec![("d", deep)]) };
        }
        docs.push(obj(vec![("deep", deep)]));
        let mut seen = std::collections::HashSet::new();
        docs.retain(|d| seen.insert(d.to_string()));
    }
    let results: Vec<(usize, Result<(), String>)> = docs.par_iter().enumerate().map(|(i, d)| (i, round_trip(d))).collect();
    let mut kinds = std::collections::BTreeSet::new();
    for (i, r) in results {
        rep.count("evaluations", 1);
        fn collect(v: &J, k: &mut std::collections::BTreeSet<&'static str>) {
            k.insert(kind(v));
            match v {
                J::Array(a) => a.iter().for_each(|x| collect(x, k)),
                J::Object(o) => o.values().for_each(|x| collect(x, k)),
                _ => {}
            }
        }
        collect(&docs[i], &mut kinds);
        if let Err(d) = r {
            let site = site_of(&d, &docs[i]);
            rep.violation(Violation::new("export(import(json))==json", site, format!("{} — input {}", d, crate::report::truncate(&docs[i].to_string(), 300))).with_case(json!({"engine": "cli", "doc": docs[i]})));
        }
    }
    rep.count("distinct_nontrivial", kinds.len() as u64);
    rep.sample(json!({"document": docs.get(docs.len() / 2)}));
    rep.finish(
        "every JSON object of a bounded family through the real CLI binary (`automerge import` on stdin -> saved document -> `automerge export` on stdout): (A) every key of the key alphabet x every scalar of the scalar alphabet at the root and one level down; (B) every scalar alone in a list, every ordered pair of scalars in a list and as two map entries; (C) every tree of lists and maps with at most 4 (quick) / 5 (thorough) nodes over 3 leaves; (D) all keys at once, one list of all scalars, nesting depth 12 / 40. Scalars: null, booleans, integers at the i64 / u64 / 2^53 boundaries, floats incl. integral floats, subnormals, f64::MAX and values known to stress decimal parsing, strings incl. empty, NUL, escapes, astral and noncharacter code points. Oracle: the export parses to a serde_json::Value equal to the input; numbers must keep integer-vs-float kind and exact value",
        &["the harness generates and parses JSON with serde_json (float_roundtrip on); -0.0 and 0.0 compare equal", "distinct_nontrivial = JSON value kinds exercised (null, bool, i64, u64, f64, string, array, object)"],
        true,
    )
}
