//! C29 — isolated transactions act on the chosen heads.

use super::c02::ref_check;
use super::c03::project;
use super::docpool::{run_pool, DocInfo, PoolCfg};
use super::Args;
use crate::alphabet::{apply, theme, Applied, Op};
use crate::graph::Graph;
use crate::obs::{hstr, observe};
use crate::report::{Report, Violation};
use crate::world::{actor, obs_of};
use automerge::{AutoCommit, Automerge, ChangeHash, LoadOptions, PatchLog, ReadDoc};
use std::collections::BTreeSet;
use std::sync::Arc;

fn check_doc(d: &Automerge, info: &DocInfo, rep: &Report, cap: usize, two_ops: bool) -> Result<(), Violation> {
    if info.kind != "replica" {
        return Ok(());
    }
    let enc = info.enc;
    let g = Graph::new(d.get_changes(&[]));
    let mut cuts = g.head_sets_above(&info.base_hashes, cap);
    cuts.retain(|h| !h.is_empty());
    let bytes = d.save();
    let ops = theme(&info.theme);
    let mut seqs: Vec<Vec<Op>> = ops.iter().map(|o| vec![*o]).collect();
    if two_ops {
        for a in ops.iter().take(6) {
            for b in ops.iter().take(6) {
                seqs.push(vec![*a, *b]);
            }
        }
    }
    for h in cuts.iter() {
        let hs = hstr(h);
        let f0 = d.fork_at(h).map_err(|e| Violation::new("fork_at-ok", "Err", format!("{:?}", e)))?;
        let want0 = project(&obs_of(&f0));
        // (a) AutoCommit::isolate
        let mut ac0 = AutoCommit::load_with_options(&bytes, LoadOptions::new().text_encoding(enc))
            .map_err(|e| Violation::new("load-ok", "Err", format!("{:?}", e)))?
            .with_actor(d.get_actor().clone());
        ac0.isolate(h);
        let got0 = project(&observe(&ac0, None, &[]));
        if got0 != want0 {
            return Err(Violation::new("isolated-reads==state-at-heads", "isolate", format!("isolate({:?}): reads differ from fork_at", hs)));
        }
        for seq in seqs.iter() {
            // the same edits on the isolated document and on a fork at those heads
            let mut ac = ac0.clone();
            let mut f = f0.clone().with_actor(actor(0x21));
            let mut ftx = f.transaction();
            let mut ok = true;
            for op in seq.iter() {
                let (ra, rf) = (apply(&mut ac, op), apply(&mut ftx, op));
                match (ra, rf) {
                    (Applied::Done, Applied::Done) => {
                        let (ga, gf) = (project(&observe(&ac, None, &[])), project(&observe(&ftx, None, &[])));
                        if ga != gf {
                            ftx.rollback();
                            return Err(Violation::new(
                                "isolated-reads==state-at-heads",
                                "isolate+edits",
                                format!("isolate({:?}) then {:?}: reads inside isolation differ from the same edit on fork_at:\n isolated {}\n fork     {}", hs, seq, super::c03::render(&ga), super::c03::render(&gf)),
                            ));
                        }
                    }
                    (Applied::Disabled, Applied::Disabled) => {
                        ok = false;
                        break;
                    }
                    (a, b) => {
                        let show = |x: &Applied| match x {
                            Applied::Done => "Done".to_string(),
                            Applied::Disabled => "Disabled".to_string(),
                            Applied::Err(e) => format!("Err({:?})", e),
                        };
                        ftx.rollback();
                        return Err(Violation::new(
                            "isolated-edit-agrees-with-fork",
                            "isolate",
                            format!("isolate({:?}) {:?}: isolated {} vs fork {}", hs, op, show(&a), show(&b)),
                        ));
                    }
                }
            }
            ftx.rollback();
            if !ok {
                ac.rollback();
                continue;
            }
            let before: BTreeSet<ChangeHash> = g.idx.keys().cloned().collect();
            ac.commit();
            let created: Vec<automerge::Change> = ac.get_changes(&[]).into_iter().filter(|c| !before.contains(&c.hash())).collect();
            if created.is_empty() {
                // the edit was a no-op (e.g. put of the value already shown): nothing to commit
                continue;
            }
            if created.len() != 1 {
                return Err(Violation::new("isolated-commit", "count", format!("{} changes created", created.len())));
            }
            if hstr(created[0].deps()) != hs {
                return Err(Violation::new(
                    "isolated-deps==heads",
                    "isolate",
                    format!("isolate({:?}) commit has deps {:?}", hs, hstr(created[0].deps())),
                ));
            }
            // a second isolated commit depends only on the first (the isolated chain)
            let mut ac2 = ac.clone();
            if let Applied::Done = apply(&mut ac2, &seq[0]) {
                if let Some(h2) = ac2.commit() {
                    let c2 = ac2.get_change_by_hash(&h2).unwrap();
                    if hstr(c2.deps()) != hstr(&[created[0].hash()]) {
                        return Err(Violation::new("isolated-deps==heads", "isolated-chain", format!("second isolated commit has deps {:?}", hstr(c2.deps()))));
                    }
                }
            } else {
                ac2.rollback();
            }
            // integrate: the document is the merge of the isolated change into the current state
            ac.integrate();
            let doc = ac.document().clone();
            ref_check(&doc, enc, "integrated")?;
            let mut plain = d.clone();
            plain.apply_changes(created.clone()).map_err(|e| Violation::new("apply-ok", "Err", format!("{:?}", e)))?;
            if let Some(diff) = obs_of(&doc).diff(&obs_of(&plain)) {
                return Err(Violation::new("integrate==merge", "isolate", format!("after integrate vs plain apply of the isolated change: {}", diff)));
            }
            let after = project(&observe(&ac, None, &[]));
            if after != project(&obs_of(&plain)) {
                return Err(Violation::new("integrate==merge", "reads-after-integrate", "AutoCommit reads after integrate differ from the merged document"));
            }
            rep.count("isolated_transactions", 1);
        }
        // (b) Automerge::transaction_at
        for seq in seqs.iter().take(if two_ops { seqs.len() } else { ops.len() }) {
            let mut x = d.clone();
            let mut f = f0.clone().with_actor(actor(0x21));
            let mut ftx = f.transaction();
            let mut tx = x.transaction_at(PatchLog::inactive(), h).map_err(|e| Violation::new("transaction_at-ok", "Err", format!("{:?}", e)))?;
            if project(&observe(&tx, None, &[])) != want0 {
                tx.rollback();
                ftx.rollback();
                return Err(Violation::new("isolated-reads==state-at-heads", "transaction_at", format!("transaction_at({:?}): reads differ from fork_at", hs)));
            }
            let mut ok = true;
            for op in seq.iter() {
                match (apply(&mut tx, op), apply(&mut ftx, op)) {
                    (Applied::Done, Applied::Done) => {
                        if project(&observe(&tx, None, &[])) != project(&observe(&ftx, None, &[])) {
                            tx.rollback();
                            ftx.rollback();
                            return Err(Violation::new("isolated-reads==state-at-heads", "transaction_at+edits", format!("transaction_at({:?}) then {:?}", hs, seq)));
                        }
                    }
                    _ => {
                        ok = false;
                        break;
                    }
                }
            }
            ftx.rollback();
            if !ok {
                tx.rollback();
                continue;
            }
            let (hh, _) = tx.commit();
            if let Some(hh) = hh {
                let c = x.get_change_by_hash(&hh).unwrap();
                if hstr(c.deps()) != hs {
                    return Err(Violation::new("isolated-deps==heads", "transaction_at", format!("transaction_at({:?}) commit has deps {:?}", hs, hstr(c.deps()))));
                }
                ref_check(&x, enc, "after-transaction_at")?;
                rep.count("isolated_transactions", 1);
            }
        }
    }
    Ok(())
}

pub fn run(args: &Args) -> i32 {
    let cap = if args.thorough() { 8 } else { 4 };
    let two = args.thorough();
    let oracle = move |d: &Automerge, info: &DocInfo, rep: &Report| check_doc(d, info, rep, cap, two);
    run_pool(
        "C29",
        args,
        "model_checking",
        PoolCfg { quick_scale: 0, thorough_scale: 0, merged: false, budgets: Some((vec![1, 1], 1)), ..Default::default() },
        Arc::new(oracle),
        "every distinct replica document reached by the history explorer x every consistent cut H above the base x every call of the theme's alphabet (thorough: also two-call transactions): under AutoCommit::isolate(H) and under Automerge::transaction_at(H) the reads (id-free projection: conflict lists, counters, elements, marks) equal the reads of fork_at(H), before and after each edit (the same edit applied to the fork); the committed change's deps are exactly H, a second isolated commit depends only on the first; after integrate the document equals the plain application of the isolated change to the original document and the reference interpretation of its history",
        &["projection is id-free because the isolated transaction may run under a derived (concurrency) actor"],
    )
}
