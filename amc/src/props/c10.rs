//! C10 — history is immutable and content-addressed.

use super::docpool::{run_pool, DocInfo, PoolCfg};
use super::Args;
use crate::chunks::{checksum_of, split_chunks, T_CHANGE};
use crate::graph::Graph;
use crate::obs::hstr;
use crate::report::{Report, Violation};
use automerge::{Automerge, Change, ChangeHash, ReadDoc};
use std::collections::{BTreeMap, BTreeSet};
use std::sync::{Arc, Mutex};

fn check_change_bytes(c: &Change, how: &str) -> Result<(), Violation> {
    let raw = c.raw_bytes();
    let (chunks, stop) = split_chunks(raw);
    if chunks.len() != 1 || stop != raw.len() || chunks[0].typ != T_CHANGE {
        return Err(Violation::new("change-is-one-chunk", how.to_string(), format!("raw_bytes of {} is not exactly one change chunk", c.hash())));
    }
    let ch = &chunks[0];
    let sum = checksum_of(T_CHANGE, &raw[ch.body_start..ch.end]);
    if sum[..] != c.hash().as_ref()[..] {
        return Err(Violation::new(
            "hash==sha256(chunk)",
            how.to_string(),
            format!("change {} via {}: SHA-256 of its chunk is {}", c.hash(), how, hex::encode(sum)),
        ));
    }
    if sum[..4] != ch.checksum {
        return Err(Violation::new("checksum==hash-prefix", how.to_string(), format!("change {} checksum bytes {:?}", c.hash(), ch.checksum)));
    }
    Ok(())
}

pub fn run(args: &Args) -> i32 {
    // bytes of every change as first seen (creation or first retrieval), keyed by hash
    let recorded: Arc<Mutex<BTreeMap<ChangeHash, Vec<u8>>>> = Arc::new(Mutex::new(BTreeMap::new()));
    let oracle = move |d: &Automerge, _info: &DocInfo, rep: &Report| -> Result<(), Violation> {
        let all = d.get_changes(&[]);
        let g = Graph::new(all.clone());
        let mut pos = BTreeMap::new();
        for (i, c) in all.iter().enumerate() {
            check_change_bytes(c, "get_changes")?;
            pos.insert(c.hash(), i);
            {
                let mut r = recorded.lock().unwrap();
                match r.get(&c.hash()) {
                    Some(b) if b != c.raw_bytes() => {
                        return Err(Violation::new("bytes-stable", "get_changes", format!("change {} bytes differ from first retrieval", c.hash())))
                    }
                    Some(_) => {}
                    None => {
                        r.insert(c.hash(), c.raw_bytes().to_vec());
                    }
                }
            }
            for dep in c.deps() {
                match pos.get(dep) {
                    Some(_) => {}
                    None => {
                        return Err(Violation::new(
                            "deps-first",
                            "get_changes([])",
                            format!("change {} appears before its dependency {}", c.hash(), dep),
                        ))
                    }
                }
            }
            let by = d
                .get_change_by_hash(&c.hash())
                .ok_or_else(|| Violation::new("get_change_by_hash", "missing", format!("{} not found", c.hash())))?;
            if by.raw_bytes() != c.raw_bytes() || by.hash() != c.hash() {
                return Err(Violation::new("get_change_by_hash", "bytes", format!("{} differs from get_changes", c.hash())));
            }
        }
        // heads = changes nobody depends on
        let all_set: BTreeSet<ChangeHash> = all.iter().map(|c| c.hash()).collect();
        if hstr(&g.heads_of(&all_set)) != hstr(&d.get_heads()) {
            return Err(Violation::new("heads", "get_heads", format!("get_heads {:?} vs derived {:?}", hstr(&d.get_heads()), hstr(&g.heads_of(&all_set)))));
        }
        // last local change
        if let Some(l) = d.get_last_local_change() {
            check_change_bytes(&l, "get_last_local_change")?;
            let mine: Vec<&Change> = all.iter().filter(|c| c.actor_id() == d.get_actor()).collect();
            let max = mine.iter().max_by_key(|c| c.seq());
            if max.map(|c| c.hash()) != Some(l.hash()) {
                return Err(Violation::new("get_last_local_change", "which", format!("returned {} (seq {})", l.hash(), l.seq())));
            }
        } else if all.iter().any(|c| c.actor_id() == d.get_actor()) {
            return Err(Violation::new("get_last_local_change", "none", "actor has changes but get_last_local_change is None"));
        }
        // get_changes(have) for every consistent cut and a few non-antichain / unknown have-sets
        let mut haves = g.all_head_sets(if rep.tier == "thorough" { 200 } else { 40 });
        let hashes: Vec<ChangeHash> = all.iter().map(|c| c.hash()).collect();
        for i in 0..hashes.len().min(6) {
            for j in (i + 1)..hashes.len().min(6) {
                haves.push(vec![hashes[i], hashes[j]]);
            }
        }
        for have in haves.iter() {
            let got = d.get_changes(have);
            let anc = g.ancestors(have);
            let want: BTreeSet<ChangeHash> = all_set.difference(&anc).cloned().collect();
            let got_set: BTreeSet<ChangeHash> = got.iter().map(|c| c.hash()).collect();
            if got_set != want || got.len() != want.len() {
                return Err(Violation::new(
                    "get_changes(have)",
                    "set",
                    format!("have {:?}: got {:?} want {:?}", hstr(have), hstr(&got_set.iter().cloned().collect::<Vec<_>>()), hstr(&want.iter().cloned().collect::<Vec<_>>())),
                ));
            }
            let mut p = BTreeSet::new();
            for c in got.iter() {
                for dep in c.deps() {
                    if want.contains(dep) && !p.contains(dep) {
                        return Err(Violation::new("get_changes(have)", "order", format!("have {:?}: {} before its dependency {}", hstr(have), c.hash(), dep)));
                    }
                }
                p.insert(c.hash());
                if Some(c.raw_bytes()) != recorded.lock().unwrap().get(&c.hash()).map(|v| &v[..]) {
                    return Err(Violation::new("bytes-stable", "get_changes(have)", format!("change {} bytes differ", c.hash())));
                }
            }
            rep.count("have_sets", 1);
        }
        // survives fork and save/load
        let f = d.fork();
        let l = Automerge::load(&d.save()).map_err(|e| Violation::new("load(save)", "Err", format!("{:?}", e)))?;
        for (name, x) in [("fork", &f), ("load(save)", &l)] {
            let xs = x.get_changes(&[]);
            if xs.len() != all.len() {
                return Err(Violation::new("bytes-stable", name, format!("{} has {} changes, original {}", name, xs.len(), all.len())));
            }
            let m: BTreeMap<ChangeHash, &Change> = xs.iter().map(|c| (c.hash(), c)).collect();
            for c in all.iter() {
                match m.get(&c.hash()) {
                    Some(o) if o.raw_bytes() == c.raw_bytes() => {}
                    _ => return Err(Violation::new("bytes-stable", name, format!("change {} missing or different after {}", c.hash(), name))),
                }
            }
            // get_changes_added in both directions
            if !d.get_changes_added(x).is_empty() || !x.get_changes_added(d).is_empty() {
                return Err(Violation::new("get_changes_added", name, "documents with equal change sets report added changes"));
            }
        }
        Ok(())
    };
    run_pool(
        "C10",
        args,
        "model_checking",
        PoolCfg::default(),
        Arc::new(oracle),
        "every distinct document reached by the history explorer (replicas and pairwise merges; 5 themes x 3 bases): each change from get_changes / get_change_by_hash / get_last_local_change is one change chunk whose SHA-256 (harness-computed over type|len|body) is its hash and whose checksum is the hash prefix; bytes equal the first-seen bytes for that hash in any replica; get_changes([]) is dependency-ordered; heads = changes nobody depends on; get_changes(have) for every consistent cut and every pair of hashes equals all \\ ancestors(have), dependency-ordered; identical after fork and load(save); get_changes_added empty between equal documents",
        &["SHA-256 collision resistance (equal hash => equal bytes as created)", "ancestors computed by the harness from Change::deps()"],
    )
}
