//! C11 — save/load round-trips a document exactly.

use super::docpool::{run_pool, DocInfo, PoolCfg};
use super::{Args, ENCODINGS};
use crate::graph::Graph;
use crate::obs::{hstr, observe};
use crate::report::{Report, Violation};
use crate::world::obs_of;
use automerge::{Automerge, LoadOptions, ReadDoc, SaveOptions};
use std::sync::Arc;

pub fn roundtrip(d: &Automerge, info: &DocInfo, rep: &Report, head_cap: usize) -> Result<(), Violation> {
    let all = d.get_changes(&[]);
    let g = Graph::new(all.clone());
    let sets = g.head_sets_above(&info.base_hashes, head_cap);
    let render = |x: &Automerge| -> crate::obs::Obs {
        if info.big {
            crate::obs::Obs { heads: hstr(&x.get_heads()), objs: [("hydrate".to_string(), crate::obs::ONode::Err(crate::obs::render_hydrate(&x.hydrate(None))))].into_iter().collect() }
        } else {
            obs_of(x)
        }
    };
    let od = render(d);
    for deflate in [true, false] {
        for retain in [true, false] {
            let site = format!("deflate={} retain_orphans={}", deflate, retain);
            let bytes = d.save_with_options(SaveOptions { deflate, retain_orphans: retain });
            let l = Automerge::load_with_options(&bytes, LoadOptions::new().text_encoding(info.enc))
                .map_err(|e| Violation::new("load(save)-ok", site.clone(), format!("{:?}", e)))?;
            if let Some(diff) = render(&l).diff(&od) {
                return Err(Violation::new("load(save)-obs", site, diff));
            }
            let lc = l.get_changes(&[]);
            if lc.len() != all.len() {
                return Err(Violation::new("load(save)-changes", site, format!("{} changes vs {}", lc.len(), all.len())));
            }
            let mut a: Vec<&[u8]> = all.iter().map(|c| c.raw_bytes()).collect();
            let mut b: Vec<&[u8]> = lc.iter().map(|c| c.raw_bytes()).collect();
            a.sort();
            b.sort();
            if a != b {
                return Err(Violation::new("load(save)-changes", site, "change bytes differ after reload"));
            }
            for hs in sets.iter() {
                if info.big {
                    let (x, y) = (crate::obs::render_hydrate(&d.hydrate(Some(hs))), crate::obs::render_hydrate(&l.hydrate(Some(hs))));
                    if x != y {
                        return Err(Violation::new("load(save)-historical", site, format!("at {:?}: hydrate differs", hstr(hs))));
                    }
                    continue;
                }
                let x = observe(d, Some(hs), &d.get_heads());
                let y = observe(&l, Some(hs), &l.get_heads());
                if let Some(diff) = x.diff(&y) {
                    return Err(Violation::new("load(save)-historical", site, format!("at {:?}: {}", hstr(hs), diff)));
                }
                rep.count("historical_reads_compared", 1);
            }
            // pending queue
            let (qd, ql) = (hstr(&d.get_missing_deps(&[])), hstr(&l.get_missing_deps(&[])));
            if retain {
                if qd != ql {
                    return Err(Violation::new("load(save)-queue", site, format!("missing deps {:?} vs {:?}", qd, ql)));
                }
            } else if !ql.is_empty() {
                return Err(Violation::new("load(save)-queue", site, format!("orphans not retained but reloaded document misses {:?}", ql)));
            }
            let again = l.save_with_options(SaveOptions { deflate, retain_orphans: retain });
            if again != bytes {
                return Err(Violation::new("save(load(save))==save", site, format!("{} bytes vs {} bytes", again.len(), bytes.len())));
            }
            rep.count("roundtrips", 1);
        }
    }
    // save() and save_nocompress() load to equal documents
    let a = Automerge::load(&d.save()).map_err(|e| Violation::new("load(save)-ok", "save", format!("{:?}", e)))?;
    let b = Automerge::load(&d.save_nocompress()).map_err(|e| Violation::new("load(save)-ok", "save_nocompress", format!("{:?}", e)))?;
    if a.save() != b.save() {
        return Err(Violation::new("save-vs-nocompress", "bytes", "load(save()) and load(save_nocompress()) re-save differently"));
    }
    Ok(())
}

pub fn run(args: &Args) -> i32 {
    let cap = if args.thorough() { 32 } else { 6 };
    let oracle = move |d: &Automerge, info: &DocInfo, rep: &Report| roundtrip(d, info, rep, cap);
    run_pool(
        "C11",
        args,
        "model_checking",
        PoolCfg {
            quick_scale: 0,
            thorough_scale: 1,
            orphans: true,
            encodings: ENCODINGS.to_vec(),
            extra_bases: vec!["B3"],
            ..Default::default()
        },
        Arc::new(oracle),
        "every distinct document reached by the history explorer (replicas, pairwise merges, documents holding queued out-of-order changes; 5 themes x bases B0/B1/B2 plus B3 whose columns exceed the DEFLATE threshold; all 4 text encodings) x {deflate on/off} x {retain_orphans on/off}: load(save) has the same reads, the same change bytes, the same reads at every consistent head set above the base, the same missing deps when orphans are retained (none otherwise), and saves back to identical bytes; save() and save_nocompress() load to documents that re-save identically",
        &["text encoding is not stored in the file: the loader is given the writer's encoding"],
    )
}
