//! C02 — document state equals the op-based CRDT interpretation of its history.

use super::{new_report, run_models, Args};
use crate::explore::Limits;
use crate::refmodel::{compare, ref_of_changes, CompareOpts};
use crate::report::Violation;
use crate::world::{obs_of, History, World};
use automerge::{Automerge, TextEncoding};

pub fn ref_check(d: &Automerge, enc: TextEncoding, what: &str) -> Result<(), Violation> {
    let changes = d.get_changes(&[]);
    let r = ref_of_changes(&changes, enc);
    if let Some(u) = &r.unsupported {
        return Err(Violation::new("ref-unsupported", u.clone(), "history outside the reference model"));
    }
    let o = obs_of(d);
    let ro = r.observe(o.heads.clone());
    if let Some((site, detail)) = compare(&o, &ro, enc, &CompareOpts { marks: true }) {
        return Err(Violation::new("obs==ref", format!("{}:{}", what, site), detail));
    }
    Ok(())
}

pub fn oracle(enc: TextEncoding) -> Box<crate::world::StateOracle> {
    Box::new(move |w: &World| {
        for d in w.docs.iter() {
            ref_check(d, enc, "replica")?;
        }
        // merged scratch copies
        for i in 0..w.docs.len() {
            for j in 0..w.docs.len() {
                if i != j {
                    let mut a = w.docs[i].clone();
                    let mut b = w.docs[j].clone();
                    a.merge(&mut b)
                        .map_err(|e| Violation::new("merge-ok", "merge Err", format!("{:?}", e)))?;
                    ref_check(&a, enc, "merged")?;
                }
            }
        }
        Ok(())
    })
}

pub fn run(args: &Args) -> i32 {
    let rep = new_report("C02", args, "model_checking");
    let enc = TextEncoding::UnicodeCodePoint;
    let mut models = vec![];
    for (theme, base, edits, merges) in super::history_configs(if args.thorough() { 2 } else { 1 }) {
        let mut h = History::new(theme, base, enc, &edits, merges);
        h.state_oracle = Some(oracle(enc));
        models.push((h.label(theme), h));
    }
    // the same alphabet plus "actor churn" (a rolled-back transaction of a new, first-sorting actor on
    // one replica: the actor table is rewritten twice while nothing observable may change)
    let churn_cfgs: Vec<(&str, &str, Vec<u8>, u8)> = if args.thorough() {
        super::history_configs(1)
    } else {
        vec![("map", "B2", vec![1, 1], 1), ("list", "B2", vec![1, 1], 1), ("text", "B2", vec![1, 1], 1)]
    };
    for (theme, base, edits, merges) in churn_cfgs {
        let mut h = History::new(theme, base, enc, &edits, merges).with_churn(1);
        h.state_oracle = Some(oracle(enc));
        models.push((format!("{} +churn", h.label(theme)), h));
    }
    let lim = Limits {
        max_wall_s: if args.thorough() { 1500.0 } else { 50.0 },
        ..Default::default()
    };
    let ex = run_models(&rep, args, models, &lim).unwrap_or(false);
    rep.finish(
        "BFS over worlds of 2-3 real Automerge replicas (themes map/list/text/marks/nested x bases B0/B1/B2), one alphabet op = one change, merges in the alphabet; oracle in every state: public-read observation of every replica and of every pairwise merge equals the independent op-set interpreter fed by Change::decode; distinct_nontrivial counts distinct observable outcomes",
        &["Change::decode() faithfully exposes the ops of a change (cross-checked by C18/C10)", "reference interpreter written from the statement of C02/C25"],
        ex,
    )
}
