//! C32 — serde export is a faithful image of the current state.

use super::docpool::{run_pool, DocInfo, PoolCfg};
use super::Args;
use crate::report::{Report, Violation};
use automerge::{AutoSerde, Automerge, ObjId, ObjType, ReadDoc, ScalarValue, Value, ROOT};
use serde::ser::{self, Serialize};
use serde_json::Value as J;
use std::sync::Arc;

/// A serializer that builds a JSON-like tree and enforces serde's length contract: a container
/// that announces `Some(n)` must write exactly `n` entries.
#[derive(Debug)]
pub struct LenErr(String);
impl std::fmt::Display for LenErr {
    fn fmt(&self, f: &mut std::fmt::Formatter<'_>) -> std::fmt::Result {
        write!(f, "{}", self.0)
    }
}
impl std::error::Error for LenErr {}
impl ser::Error for LenErr {
    fn custom<T: std::fmt::Display>(msg: T) -> Self {
        LenErr(msg.to_string())
    }
}

pub struct Strict;
pub struct StrictSeq {
    hint: Option<usize>,
    items: Vec<J>,
}
pub struct StrictMap {
    hint: Option<usize>,
    items: Vec<(String, J)>,
    key: Option<String>,
}

impl ser::Serializer for Strict {
    type Ok = J;
    type Error = LenErr;
    type SerializeSeq = StrictSeq;
    type SerializeTuple = StrictSeq;
    type SerializeTupleStruct = StrictSeq;
    type SerializeTupleVariant = StrictSeq;
    type SerializeMap = StrictMap;
    type SerializeStruct = StrictMap;
    type SerializeStructVariant = StrictMap;
    fn serialize_bool(self, v: bool) -> Result<J, LenErr> {
        Ok(J::Bool(v))
    }
    fn serialize_i8(self, v: i8) -> Result<J, LenErr> {
        Ok(J::from(v))
    }
    fn serialize_i16(self, v: i16) -> Result<J, LenErr> {
        Ok(J::from(v))
    }
    fn serialize_i32(self, v: i32) -> Result<J, LenErr> {
        Ok(J::from(v))
    }
    fn serialize_i64(self, v: i64) -> Result<J, LenErr> {
        Ok(J::from(v))
    }
    fn serialize_u8(self, v: u8) -> Result<J, LenErr> {
        Ok(J::from(v))
    }
    fn serialize_u16(self, v: u16) -> Result<J, LenErr> {
        Ok(J::from(v))
    }
    fn serialize_u32(self, v: u32) -> Result<J, LenErr> {
        Ok(J::from(v))
    }
    fn serialize_u64(self, v: u64) -> Result<J, LenErr> {
        Ok(J::from(v))
    }
    fn serialize_f32(self, v: f32) -> Result<J, LenErr> {
        Ok(J::from(v))
    }
    fn serialize_f64(self, v: f64) -> Result<J, LenErr> {
        Ok(J::from(v))
    }
    fn serialize_char(self, v: char) -> Result<J, LenErr> {
        Ok(J::String(v.to_string()))
    }
    fn serialize_str(self, v: &str) -> Result<J, LenErr> {
        Ok(J::String(v.to_string()))
    }
    fn serialize_bytes(self, v: &[u8]) -> Result<J, LenErr> {
        Ok(J::Array(v.iter().map(|b| J::from(*b)).collect()))
    }
    fn serialize_none(self) -> Result<J, LenErr> {
        Ok(J::Null)
    }
    fn serialize_some<T: ?Sized + Serialize>(self, value: &T) -> Result<J, LenErr> {
        value.serialize(Strict)
    }
    fn serialize_unit(self) -> Result<J, LenErr> {
        Ok(J::Null)
    }
    fn serialize_unit_struct(self, _name: &'static str) -> Result<J, LenErr> {
        Ok(J::Null)
    }
    fn serialize_unit_variant(self, _n: &'static str, _i: u32, variant: &'static str) -> Result<J, LenErr> {
        Ok(J::String(variant.to_string()))
    }
    fn serialize_newtype_struct<T: ?Sized + Serialize>(self, _n: &'static str, value: &T) -> Result<J, LenErr> {
        value.serialize(Strict)
    }
    fn serialize_newtype_variant<T: ?Sized + Serialize>(self, _n: &'static str, _i: u32, _v: &'static str, value: &T) -> Result<J, LenErr> {
        value.serialize(Strict)
    }
    fn serialize_seq(self, len: Option<usize>) -> Result<StrictSeq, LenErr> {
        Ok(StrictSeq { hint: len, items: vec![] })
    }
    fn serialize_tuple(self, len: usize) -> Result<StrictSeq, LenErr> {
        Ok(StrictSeq { hint: Some(len), items: vec![] })
    }
    fn serialize_tuple_struct(self, _n: &'static str, len: usize) -> Result<StrictSeq, LenErr> {
        Ok(StrictSeq { hint: Some(len), items: vec![] })
    }
    fn serialize_tuple_variant(self, _n: &'static str, _i: u32, _v: &'static str, len: usize) -> Result<StrictSeq, LenErr> {
        Ok(StrictSeq { hint: Some(len), items: vec![] })
    }
    fn serialize_map(self, len: Option<usize>) -> Result<StrictMap, LenErr> {
        Ok(StrictMap { hint: len, items: vec![], key: None })
    }
    fn serialize_struct(self, _n: &'static str, len: usize) -> Result<StrictMap, LenErr> {
        Ok(StrictMap { hint: Some(len), items: vec![], key: None })
    }
    fn serialize_struct_variant(self, _n: &'static str, _i: u32, _v: &'static str, len: usize) -> Result<StrictMap, LenErr> {
        Ok(StrictMap { hint: Some(len), items: vec![], key: None })
    }
}

impl StrictSeq {
    fn finish(self) -> Result<J, LenErr> {
        if let Some(h) = self.hint {
            if h != self.items.len() {
                return Err(LenErr(format!("sequence announced length {} but wrote {} elements", h, self.items.len())));
            }
        }
        Ok(J::Array(self.items))
    }
}
impl ser::SerializeSeq for StrictSeq {
    type Ok = J;
    type Error = LenErr;
    fn serialize_element<T: ?Sized + Serialize>(&mut self, value: &T) -> Result<(), LenErr> {
        self.items.push(value.serialize(Strict)?);
        Ok(())
    }
    fn end(self) -> Result<J, LenErr> {
        self.finish()
    }
}
impl ser::SerializeTuple for StrictSeq {
    type Ok = J;
    type Error = LenErr;
    fn serialize_element<T: ?Sized + Serialize>(&mut self, value: &T) -> Result<(), LenErr> {
        self.items.push(value.serialize(Strict)?);
        Ok(())
    }
    fn end(self) -> Result<J, LenErr> {
        self.finish()
    }
}
impl ser::SerializeTupleStruct for StrictSeq {
    type Ok = J;
    type Error = LenErr;
    fn serialize_field<T: ?Sized + Serialize>(&mut self, value: &T) -> Result<(), LenErr> {
        self.items.push(value.serialize(Strict)?);
        Ok(())
    }
    fn end(self) -> Result<J, LenErr> {
        self.finish()
    }
}
impl ser::SerializeTupleVariant for StrictSeq {
    type Ok = J;
    type Error = LenErr;
    fn serialize_field<T: ?Sized + Serialize>(&mut self, value: &T) -> Result<(), LenErr> {
        self.items.push(value.serialize(Strict)?);
        Ok(())
    }
    fn end(self) -> Result<J, LenErr> {
        self.finish()
    }
}
impl StrictMap {
    fn finish(self) -> Result<J, LenErr> {
        if let Some(h) = self.hint {
            if h != self.items.len() {
                return Err(LenErr(format!("map announced length {} but wrote {} entries", h, self.items.len())));
            }
        }
        Ok(J::Object(self.items.into_iter().collect()))
    }
}
impl ser::SerializeMap for StrictMap {
    type Ok = J;
    type Error = LenErr;
    fn serialize_key<T: ?Sized + Serialize>(&mut self, key: &T) -> Result<(), LenErr> {
        match key.serialize(Strict)? {
            J::String(s) => {
                self.key = Some(s);
                Ok(())
            }
            other => Err(LenErr(format!("non-string map key {:?}", other))),
        }
    }
    fn serialize_value<T: ?Sized + Serialize>(&mut self, value: &T) -> Result<(), LenErr> {
        let k = self.key.take().ok_or_else(|| LenErr("value without key".into()))?;
        self.items.push((k, value.serialize(Strict)?));
        Ok(())
    }
    fn end(self) -> Result<J, LenErr> {
        self.finish()
    }
}
impl ser::SerializeStruct for StrictMap {
    type Ok = J;
    type Error = LenErr;
    fn serialize_field<T: ?Sized + Serialize>(&mut self, key: &'static str, value: &T) -> Result<(), LenErr> {
        self.items.push((key.to_string(), value.serialize(Strict)?));
        Ok(())
    }
    fn end(self) -> Result<J, LenErr> {
        self.finish()
    }
}
impl ser::SerializeStructVariant for StrictMap {
    type Ok = J;
    type Error = LenErr;
    fn serialize_field<T: ?Sized + Serialize>(&mut self, key: &'static str, value: &T) -> Result<(), LenErr> {
        self.items.push((key.to_string(), value.serialize(Strict)?));
        Ok(())
    }
    fn end(self) -> Result<J, LenErr> {
        self.finish()
    }
}

fn scalar_json(s: &ScalarValue) -> J {
    match s {
        ScalarValue::Bytes(b) => J::Array(b.iter().map(|x| J::from(*x)).collect()),
        ScalarValue::Str(s) => J::String(s.to_string()),
        ScalarValue::Int(i) => J::from(*i),
        ScalarValue::Uint(u) => J::from(*u),
        ScalarValue::F64(f) => J::from(*f),
        ScalarValue::Counter(c) => J::from(i64::from(c)),
        ScalarValue::Timestamp(t) => J::from(*t),
        ScalarValue::Boolean(b) => J::Bool(*b),
        ScalarValue::Null => J::Null,
        ScalarValue::Unknown { .. } => J::Null,
    }
}

/// winners-only projection built from keys / length / get_all (last = winner) / text
pub fn expected(d: &Automerge, obj: &ObjId, ty: ObjType) -> J {
    let val = |v: &Value<'_>, id: &ObjId| -> J {
        match v {
            Value::Object(t) => expected(d, id, *t),
            Value::Scalar(s) => scalar_json(s),
        }
    };
    match ty {
        ObjType::Map | ObjType::Table => {
            let mut m = serde_json::Map::new();
            for k in d.keys(obj) {
                if let Ok(all) = d.get_all(obj, k.as_str()) {
                    if let Some((v, id)) = all.last() {
                        m.insert(k, val(v, id));
                    }
                }
            }
            J::Object(m)
        }
        ObjType::List => {
            let mut a = vec![];
            for i in 0..d.length(obj) {
                if let Ok(all) = d.get_all(obj, i) {
                    if let Some((v, id)) = all.last() {
                        a.push(val(v, id));
                    }
                }
            }
            J::Array(a)
        }
        ObjType::Text => J::String(d.text(obj).unwrap_or_default()),
    }
}

pub fn run(args: &Args) -> i32 {
    let oracle = move |d: &Automerge, _info: &DocInfo, rep: &Report| -> Result<(), Violation> {
        let want = expected(d, &ROOT, ObjType::Map);
        let got = serde_json::to_value(AutoSerde::from(d)).map_err(|e| Violation::new("serde_json-ok", "to_value", format!("{}", e)))?;
        if got != want {
            return Err(Violation::new("export==winners", "serde_json", format!("got {} want {}", got, want)));
        }
        match AutoSerde::from(d).serialize(Strict) {
            Ok(v) => {
                if v != want {
                    return Err(Violation::new("export==winners", "strict", format!("got {} want {}", v, want)));
                }
            }
            Err(e) => {
                return Err(Violation::new("length-contract", e.0.split(" announced").next().unwrap_or("?").to_string(), format!("{} in {}", e.0, want)));
            }
        }
        rep.count("exports", 2);
        Ok(())
    };
    run_pool(
        "C32",
        args,
        "model_checking",
        PoolCfg::default(),
        Arc::new(oracle),
        "every distinct document reached by the history explorer (replicas and pairwise merges; nested maps, lists, text, counters, conflicts): AutoSerde serialised (a) with serde_json and (b) with a harness Serializer that fails when a container writes a number of entries different from the length it announced; both outputs must equal the winners-only projection built from keys/length/get_all/text",
        &["expected image is built from keys/length/get_all(last)/text, a different read path than AutoSerde's get()"],
    )
}
