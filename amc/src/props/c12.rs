//! C12 — incremental saves and loads compose.  (C13/C14 reuse the files this explorer produces.)

use super::{new_report, run_models, Args};
use crate::alphabet::{apply, Applied, Key, Op, Pos, Role, Val};
use crate::deliver::permutations;
use crate::explore::{Limits, Model, Step};
use crate::obs::hstr;
use crate::report::Violation;
use crate::world::{actor, base, edit_commit, obs_of, opcols, EditResult};
use automerge::{AutoCommit, Automerge, ChangeHash, ReadDoc, TextEncoding};
use sha2::{Digest, Sha256};
use std::sync::Mutex;

#[derive(Clone)]
pub struct Piece {
    pub kind: &'static str,
    pub bytes: Vec<u8>,
    /// the writer's document when the piece was written
    pub snap: Automerge,
}

#[derive(Clone)]
pub struct W {
    pub writer: AutoCommit,
    pub peer: Automerge,
    pub pieces: Vec<Piece>,
    pub edits: u8,
    pub peer_edits: u8,
    pub saves: u8,
}

#[derive(Clone, Debug)]
pub enum Act {
    Edit(usize),
    PeerEdit,
    MergePeer,
    Save,
    SaveIncremental,
    SaveAfter(usize),
}

pub static WRITER_OPS: &[Op] = &[
    Op::Put(Role::Root, Key::K("a"), Val::Int(2)),
    Op::Splice(Role::T, Pos::Mid, 0, "é"),
    Op::Ins(Role::L, Pos::Start, Val::Str("n")),
    Op::Del(Role::L, Key::I(Pos::Last)),
];

pub struct M {
    pub base: &'static str,
    pub edits: u8,
    pub peer_edits: u8,
    pub saves: u8,
    /// called with every state's pieces (used by C13 / C14 to harvest files)
    pub harvest: Option<Box<dyn Fn(&W) + Send + Sync>>,
    pub check: bool,
}

fn writer_doc(w: &AutoCommit) -> Automerge {
    let mut c = w.clone();
    c.document().clone()
}

pub fn equal_docs(a: &Automerge, b: &Automerge, what: &str, site: &str) -> Result<(), Violation> {
    if let Some(d) = obs_of(a).diff(&obs_of(b)) {
        return Err(Violation::new(what, format!("{}:reads", site), d));
    }
    match (opcols(a), opcols(b)) {
        (Ok(x), Ok(y)) if x == y => Ok(()),
        (Ok(_), Ok(_)) => Err(Violation::new(what, format!("{}:opcols", site), "same reads but different op columns")),
        (Err(e), _) | (_, Err(e)) => Err(Violation::new(what, format!("{}:opcols-parse", site), e)),
    }
}

impl Model for M {
    type S = W;
    type A = Act;

    fn inits(&self) -> Vec<(String, W)> {
        let enc = TextEncoding::UnicodeCodePoint;
        let b = base(self.base, enc);
        let mut writer = AutoCommit::load(&b.save()).unwrap().with_actor(actor(0x10));
        // start with a clean save cursor: nothing saved yet
        let _ = &mut writer;
        let peer = b.fork().with_actor(actor(0x90));
        vec![(
            self.base.to_string(),
            W {
                writer,
                peer,
                pieces: vec![],
                edits: self.edits,
                peer_edits: self.peer_edits,
                saves: self.saves,
            },
        )]
    }

    fn actions(&self, s: &W) -> Vec<Act> {
        let mut v = vec![];
        if s.edits > 0 {
            for i in 0..WRITER_OPS.len() {
                v.push(Act::Edit(i));
            }
        }
        if s.peer_edits > 0 {
            v.push(Act::PeerEdit);
        }
        v.push(Act::MergePeer);
        if s.saves > 0 {
            v.push(Act::Save);
            v.push(Act::SaveIncremental);
            for k in 0..s.pieces.len() {
                v.push(Act::SaveAfter(k));
            }
        }
        v
    }

    fn step(&self, s: &W, a: &Act) -> Step<W> {
        let mut n = s.clone();
        match a {
            Act::Edit(i) => {
                // left uncommitted: the save calls must close the transaction themselves
                match apply(&mut n.writer, &WRITER_OPS[*i]) {
                    Applied::Done => {}
                    _ => return Step::Disabled,
                }
                n.edits -= 1;
            }
            Act::PeerEdit => {
                let k = n.peer_edits;
                match edit_commit(&mut n.peer, &Op::Put(Role::Root, Key::K("a"), Val::Int(100 + k as i64))) {
                    EditResult::Done => {}
                    _ => return Step::Disabled,
                }
                n.peer_edits -= 1;
            }
            Act::MergePeer => {
                let before = hstr(&writer_doc(&n.writer).get_heads());
                let mut p = AutoCommit::load(&n.peer.save()).unwrap();
                if let Err(e) = n.writer.merge(&mut p) {
                    return Step::Fail(Violation::new("merge-ok", "Err", format!("{:?}", e)));
                }
                if hstr(&writer_doc(&n.writer).get_heads()) == before {
                    return Step::Disabled;
                }
            }
            Act::Save => {
                let bytes = n.writer.save();
                n.pieces.push(Piece { kind: "save", bytes, snap: writer_doc(&n.writer) });
                n.saves -= 1;
            }
            Act::SaveIncremental => {
                // an incremental piece only makes sense after a save
                if !n.pieces.iter().any(|p| p.kind == "save") {
                    return Step::Disabled;
                }
                let bytes = n.writer.save_incremental();
                if bytes.is_empty() {
                    return Step::Disabled;
                }
                n.pieces.push(Piece { kind: "incremental", bytes, snap: writer_doc(&n.writer) });
                n.saves -= 1;
            }
            Act::SaveAfter(k) => {
                let heads: Vec<ChangeHash> = s.pieces[*k].snap.get_heads();
                let bytes = n.writer.save_after(&heads);
                if bytes.is_empty() {
                    return Step::Disabled;
                }
                n.pieces.push(Piece { kind: "save_after", bytes, snap: writer_doc(&n.writer) });
                n.saves -= 1;
            }
        }
        Step::Next(n)
    }

    fn key(&self, s: &W) -> [u8; 32] {
        let mut h = Sha256::new();
        let mut w = s.writer.clone();
        for x in hstr(&w.document().get_heads()) {
            h.update(x.as_bytes());
        }
        h.update([w.pending_ops_count() as u8]);
        h.update(b"|");
        for x in hstr(&s.peer.get_heads()) {
            h.update(x.as_bytes());
        }
        h.update(b"|");
        for p in s.pieces.iter() {
            h.update(p.kind.as_bytes());
            h.update((p.bytes.len() as u32).to_le_bytes());
            h.update(&p.bytes);
        }
        // the save cursor is part of the future behaviour: it is determined by the pieces written
        h.update([s.edits, s.peer_edits, s.saves]);
        let mut r = [0u8; 32];
        r.copy_from_slice(&h.finalize());
        r
    }

    fn check_state(&self, s: &W) -> Result<(), Violation> {
        if let Some(f) = &self.harvest {
            f(s);
        }
        if !self.check || s.pieces.is_empty() {
            return Ok(());
        }
        let last = s.pieces.last().unwrap();
        // (a) every save followed by everything written after it loads to the writer's document
        for (i, p) in s.pieces.iter().enumerate() {
            if p.kind != "save" {
                continue;
            }
            let mut file = vec![];
            for q in s.pieces[i..].iter() {
                file.extend_from_slice(&q.bytes);
            }
            let l = Automerge::load(&file).map_err(|e| Violation::new("concat-loads", "load", format!("{:?} ({} pieces from {})", e, s.pieces.len() - i, i)))?;
            equal_docs(&l, &last.snap, "concat==writer", "load")?;
            let mut e = Automerge::new();
            e.load_incremental(&file)
                .map_err(|er| Violation::new("concat-loads", "load_incremental-into-empty", format!("{:?}", er)))?;
            equal_docs(&e, &last.snap, "concat==writer", "load_incremental-into-empty")?;
        }
        // (b) a document equal to the writer at piece k, fed the later pieces in every order
        for k in 0..s.pieces.len() {
            let later: Vec<&Piece> = s.pieces[k + 1..].iter().collect();
            if later.is_empty() || later.len() > 4 {
                continue;
            }
            for p in permutations(later.len()) {
                let mut d = s.pieces[k].snap.clone().with_actor(actor(0x33));
                for &i in p.iter() {
                    d.load_incremental(&later[i].bytes)
                        .map_err(|e| Violation::new("pieces-load", "load_incremental", format!("{:?} (from piece {} order {:?})", e, k, p)))?;
                }
                equal_docs(&d, &last.snap, "pieces==writer", "any-order").map_err(|v| v.with_case(serde_json::json!({"from_piece": k, "order": p})))?;
                // (c) feeding the same pieces again changes nothing
                let before = (obs_of(&d), d.save());
                for &i in p.iter() {
                    d.load_incremental(&later[i].bytes)
                        .map_err(|e| Violation::new("pieces-load", "reload", format!("{:?}", e)))?;
                }
                if (obs_of(&d), d.save()) != before {
                    return Err(Violation::new("pieces-idempotent", "reload", format!("feeding the pieces after {} a second time changed the document", k)));
                }
            }
        }
        // (d) an EMPTY document fed a full save and everything written after it, in every order
        // (the pieces that arrive before the save they depend on are held and must not be lost)
        for (k, first) in s.pieces.iter().enumerate() {
            if first.kind != "save" {
                continue;
            }
            let from: Vec<&Piece> = s.pieces[k..].iter().collect();
            if from.len() < 2 || from.len() > 4 {
                continue;
            }
            for p in permutations(from.len()) {
                let mut d = Automerge::new().with_actor(actor(0x34));
                for &i in p.iter() {
                    d.load_incremental(&from[i].bytes)
                        .map_err(|e| Violation::new("pieces-load", "load_incremental-into-empty", format!("{:?} (from save {} order {:?})", e, k, p)))?;
                }
                equal_docs(&d, &last.snap, "pieces==writer", "empty-reader-any-order").map_err(|v| v.with_case(serde_json::json!({"from_save": k, "order": p})))?;
            }
        }
        Ok(())
    }

    fn describe(&self, s: &W) -> serde_json::Value {
        serde_json::json!(s.pieces.iter().map(|p| format!("{}:{}B", p.kind, p.bytes.len())).collect::<Vec<_>>())
    }
}

trait Pending {
    fn pending_ops_count(&self) -> usize;
}
impl Pending for AutoCommit {
    fn pending_ops_count(&self) -> usize {
        use automerge::transaction::Transactable;
        self.pending_ops()
    }
}

pub fn models(thorough: bool) -> Vec<(String, M)> {
    let mut v = vec![];
    let cfgs: Vec<(&'static str, u8, u8, u8)> = if thorough {
        vec![("B1", 3, 1, 4), ("B2", 2, 1, 4), ("B0", 2, 1, 3)]
    } else {
        vec![("B1", 2, 1, 3), ("B2", 1, 1, 3)]
    };
    for (b, e, p, s) in cfgs {
        v.push((
            format!("incremental[{} edits={} peer={} saves={}]", b, e, p, s),
            M { base: b, edits: e, peer_edits: p, saves: s, harvest: None, check: true },
        ));
    }
    v
}

pub fn run(args: &Args) -> i32 {
    let rep = new_report("C12", args, "model_checking");
    let lim = Limits {
        max_wall_s: if args.thorough() { 1700.0 } else { 45.0 },
        ..Default::default()
    };
    let ex = run_models(&rep, args, models(args.thorough()), &lim).unwrap_or(false);
    rep.finish(
        "explicit-state BFS over a writer (AutoCommit, edits left uncommitted so the save calls must close the transaction) and a peer feeding concurrent changes; actions: edit (4 ops), peer edit, merge peer, save, save_incremental, save_after(heads of any earlier piece); in every state: every save concatenated with everything written after it loads (load, and load_incremental into an empty document) to the writer's document as of the last piece (reads + op columns); a copy of the writer as of piece k fed the later pieces through load_incremental in EVERY order equals it too; feeding the same pieces a second time changes neither reads nor save bytes; an EMPTY document fed a full save and every later piece in EVERY order (<= 4 pieces) equals the writer too",
        &["budgets: edits<=2(3), peer edits<=1, pieces<=3(4)"],
        ex,
    )
}

#[allow(dead_code)]
fn _m(_: Mutex<()>) {}
