//! C19 — identifiers and sync state serialise losslessly and resolve correctly.

use super::c30::id_forms;
use super::{new_report, run_models, Args};
use crate::explore::{Limits, Model, Step};
use crate::obs::{hstr, reachable};
use crate::report::{Report, Violation};
use crate::syncmc::{start_docs, SAct, SWorld, SyncModel, START_KINDS};
use crate::world::{History, World};
use automerge::sync;
use automerge::{ActorId, Automerge, ChangeHash, Cursor, MoveCursor, ObjType, ReadDoc, TextEncoding};
use std::collections::HashSet;
use std::str::FromStr;
use std::sync::{Arc, Mutex};

/// wraps the sync model, adding the serialisation oracles on every state
struct SyncSer {
    inner: SyncModel,
    rep: Arc<Report>,
}

impl Model for SyncSer {
    type S = SWorld;
    type A = SAct;
    fn inits(&self) -> Vec<(String, SWorld)> {
        self.inner.inits()
    }
    fn actions(&self, s: &SWorld) -> Vec<SAct> {
        self.inner.actions(s)
    }
    fn step(&self, s: &SWorld, a: &SAct) -> Step<SWorld> {
        self.inner.step(s, a)
    }
    fn key(&self, s: &SWorld) -> [u8; 32] {
        self.inner.key(s)
    }
    fn outcome(&self, s: &SWorld) -> [u8; 32] {
        self.inner.outcome(s)
    }
    fn check_state(&self, s: &SWorld) -> Result<(), Violation> {
        for q in s.chans.values() {
            for bytes in q.iter() {
                let m = sync::Message::decode(bytes).map_err(|e| Violation::new("message-decodes", "decode", format!("{:?}", e)))?;
                let again = m.clone().encode();
                let m2 = sync::Message::decode(&again).map_err(|e| Violation::new("message-decodes", "re-decode", format!("{:?}", e)))?;
                if m2 != m {
                    return Err(Violation::new("message-roundtrip", "decode(encode(m))", format!("{:?} vs {:?}", m, m2)));
                }
                if &again != bytes {
                    return Err(Violation::new("message-roundtrip", "encode(decode(bytes))", format!("{} bytes re-encode to {} different bytes", bytes.len(), again.len())));
                }
                self.rep.count("messages_roundtripped", 1);
            }
        }
        for st in s.states.values() {
            let enc = st.encode();
            let dec = sync::State::decode(&enc).map_err(|e| Violation::new("state-decodes", "decode", format!("{:?}", e)))?;
            if hstr(&dec.shared_heads) != hstr(&st.shared_heads) {
                return Err(Violation::new("state-roundtrip", "shared_heads", format!("{:?} vs {:?}", hstr(&dec.shared_heads), hstr(&st.shared_heads))));
            }
            if dec.encode() != enc {
                return Err(Violation::new("state-roundtrip", "bytes", "re-encoding a decoded state gives different bytes"));
            }
            self.rep.count("states_roundtripped", 1);
        }
        Ok(())
    }
}

fn ids_and_cursors(w: &World, rep: &Report) -> Result<(), Violation> {
    // every replica, and the merge of everything (largest actor table)
    let mut all = w.docs[0].clone();
    for d in w.docs.iter().skip(1) {
        all.merge(&mut d.clone()).map_err(|e| Violation::new("merge-ok", "Err", format!("{:?}", e)))?;
    }
    // an extra actor sorting first changes every actor index in `all`
    let mut shifted = all.fork().with_actor(crate::world::actor(0x00));
    {
        use automerge::transaction::Transactable;
        let mut tx = shifted.transaction();
        tx.put(automerge::ROOT, "shift", 1).unwrap();
        tx.commit();
    }
    for d in w.docs.iter() {
        // actor ids and change hashes
        for c in d.get_changes(&[]) {
            let a = c.actor_id();
            let a2 = ActorId::from_str(&a.to_hex_string()).map_err(|e| Violation::new("actorid-string", "Err", format!("{:?}", e)))?;
            let a3 = ActorId::try_from(a.to_bytes()).map_err(|e| Violation::new("actorid-bytes", "Err", format!("{:?}", e)))?;
            if &a2 != a || &a3 != a {
                return Err(Violation::new("actorid-roundtrip", "neq", format!("{}", a)));
            }
            let h = c.hash();
            let h2 = ChangeHash::from_str(&h.to_string()).map_err(|e| Violation::new("hash-string", "Err", format!("{:?}", e)))?;
            let h3 = ChangeHash::try_from(h.as_ref()).map_err(|e| Violation::new("hash-bytes", "Err", format!("{:?}", e)))?;
            if h2 != h || h3 != h {
                return Err(Violation::new("hash-roundtrip", "neq", format!("{}", h)));
            }
        }
        for (id, ty) in reachable(d, None) {
            // object ids: serialised in `d`, parsed and used in documents with different actor tables
            for (fname, fid) in id_forms(&id, d)? {
                for (tname, target) in [("merged", &all), ("shifted", &shifted)] {
                    if id != automerge::ROOT {
                        match target.object_type(&fid) {
                            Ok(t) if t == ty => {}
                            other => return Err(Violation::new("objid-resolves", format!("{}:{}", fname, tname), format!("{} -> {:?} (want {:?})", id, other, ty))),
                        }
                    }
                    rep.count("objid_resolutions", 1);
                }
            }
            if !matches!(ty, ObjType::List | ObjType::Text) {
                continue;
            }
            // cursors: taken in `d`, serialised, parsed, resolved in the other documents
            for i in 0..d.length(&id) {
                for after in [true, false] {
                    let c = d
                        .get_cursor_moving(&id, i, None, if after { MoveCursor::After } else { MoveCursor::Before })
                        .map_err(|e| Violation::new("get_cursor-ok", "Err", format!("{:?}", e)))?;
                    let cs = Cursor::try_from(c.to_string().as_str()).map_err(|e| Violation::new("cursor-string", "Err", format!("{:?}: {:?}", c.to_string(), e)))?;
                    let cb = Cursor::try_from(&c.to_bytes()[..]).map_err(|e| Violation::new("cursor-bytes", "Err", format!("{:?}", e)))?;
                    if cs != c || cb != c {
                        return Err(Violation::new("cursor-roundtrip", "neq", format!("{} -> {} / {}", c, cs, cb)));
                    }
                    // same element in the merged and the shifted document: compare through the element id
                    let elem = d.get(&id, i).ok().flatten().map(|(_, eid)| eid.to_string());
                    for (tname, target) in [("merged", &all), ("shifted", &shifted)] {
                        let want = target.get_cursor_position(&id, &c, None);
                        for (fname, f) in [("from-string", &cs), ("from-bytes", &cb)] {
                            let got = target.get_cursor_position(&id, f, None);
                            if format!("{:?}", got) != format!("{:?}", want) {
                                return Err(Violation::new("cursor-resolves", format!("{}:{}", fname, tname), format!("{}: {:?} vs original {:?}", c, got, want)));
                            }
                        }
                        // and it lands on the same element when that element's winner is unchanged
                        if let (Ok(p), Some(e)) = (&want, &elem) {
                            if let Ok(all_vals) = target.get_all(&id, *p) {
                                if d.get_all(&id, i).map(|v| v.len()).unwrap_or(0) == 1 && all_vals.iter().all(|(_, x)| &x.to_string() != e) && all_vals.len() == 1 {
                                    // single-valued element in both: ids must match
                                    let shown = all_vals.first().map(|(_, x)| x.to_string());
                                    let src_vals = d.get_all(&id, i).unwrap();
                                    let still_there = target.get_all(&id, *p).unwrap().iter().any(|(_, x)| src_vals.iter().any(|(_, y)| x == y));
                                    if !still_there && contains_elem(target, &id, e) {
                                        return Err(Violation::new("cursor-resolves", format!("element:{}", tname), format!("cursor on {} resolves to index {} showing {:?}", e, p, shown)));
                                    }
                                }
                            }
                        }
                        rep.count("cursor_resolutions", 1);
                    }
                }
            }
        }
    }
    Ok(())
}

fn contains_elem(d: &Automerge, obj: &automerge::ObjId, elem: &str) -> bool {
    (0..d.length(obj)).any(|i| d.get_all(obj, i).map(|v| v.iter().any(|(_, x)| x.to_string() == elem)).unwrap_or(false))
}

pub fn run(args: &Args) -> i32 {
    let rep = Arc::new(new_report("C19", args, "model_checking"));
    let lim = Limits {
        max_wall_s: if args.thorough() { 800.0 } else { 20.0 },
        ..Default::default()
    };
    // (a) every message and state of a sync exploration
    let mut starts = vec![];
    for k in START_KINDS {
        let mut w = SWorld::new(start_docs(k, 2), &[(0, 1)]);
        w.edits = if args.thorough() { vec![2, 1] } else { vec![1, 1] };
        w.fps = 1;
        w.toggles = if args.thorough() { 1 } else { 0 };
        starts.push((k.to_string(), w));
    }
    let sm = SyncSer {
        inner: SyncModel { label: "sync2-serialisation".into(), starts, rounds: 10, check_completion: false },
        rep: rep.clone(),
    };
    let ex1 = run_models(&rep, args, vec![("sync2-serialisation".to_string(), sm)], &lim);
    // (b) ids and cursors across replicas whose actor tables differ
    let enc = TextEncoding::UnicodeCodePoint;
    let mut models = vec![];
    let cfgs: Vec<(&str, &str, Vec<u8>, u8)> = if args.thorough() {
        vec![("nested", "B1", vec![2, 2], 1), ("list", "B2", vec![2, 2], 1), ("text", "B2", vec![2, 1], 1)]
    } else {
        vec![("nested", "B1", vec![1, 1], 1), ("list", "B2", vec![1, 1], 1), ("text", "B2", vec![1, 1], 1)]
    };
    for (theme, bname, edits, merges) in cfgs {
        let mut h = History::new(theme, bname, enc, &edits, merges);
        let seen: Mutex<HashSet<Vec<String>>> = Mutex::new(HashSet::new());
        let rep2 = rep.clone();
        h.state_oracle = Some(Box::new(move |w: &World| {
            let key: Vec<String> = w.docs.iter().flat_map(|d| {
                let mut v = hstr(&d.get_heads());
                v.push("|".into());
                v
            }).collect();
            if !seen.lock().unwrap().insert(key) && !crate::util::replaying() {
                return Ok(());
            }
            ids_and_cursors(w, &rep2)
        }));
        models.push((h.label(theme), h));
    }
    let ex2 = run_models(&rep, args, models, &lim);
    let ex = ex1.unwrap_or(false) && ex2.unwrap_or(ex1.is_some());
    rep.finish(
        "(a) explicit-state BFS of the two-peer sync protocol (six start worlds, edits, one injected false positive, read-only toggle in thorough): every message ever queued satisfies decode(encode(m)) == m and encode(decode(bytes)) == bytes; every sync::State satisfies decode(encode(s)).shared_heads == s.shared_heads and re-encodes identically; (b) history explorer (nested / list / text themes): every actor id and change hash round-trips through its string and byte forms; every object id and every cursor (every index, both move modes) taken in any replica round-trips through bytes and string, and the parsed value resolves in the merge of all replicas and in a fork that commits under an actor sorting before all others (every actor index shifted) to the same object type / the same position as the original value",
        &[],
        ex,
    )
}
