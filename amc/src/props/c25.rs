//! C25 — rich-text marks follow Peritext semantics and agree across reads.

use super::c02::ref_check;
use super::c07::check_at;
use super::{new_report, run_models, Args};
use crate::alphabet::{resolve, resolve_pos, Op, Role};
use crate::explore::Limits;
use crate::graph::Graph;
use crate::obs::{hstr, render_markset, render_scalar, ONode};
use crate::refmodel::{ref_of_changes, Id};
use crate::report::{Report, Violation};
use crate::world::{base, obs_of, HAct, History, World};
use automerge::{Automerge, ChangeHash, ReadDoc, ScalarValue, TextEncoding};
use std::collections::{BTreeMap, BTreeSet, HashSet};
use std::sync::{Arc, Mutex};

/// the boundary rule: insert-only splice at element boundary `i` of the text `T`
fn boundary_rule(before: &Automerge, after: &Automerge, op: &Op, enc: TextEncoding, rep: &Report) -> Result<(), Violation> {
    let (pos, s) = match op {
        Op::Splice(Role::T, p, 0, s) if !s.is_empty() => (*p, *s),
        _ => return Ok(()),
    };
    let Some((t, _)) = resolve(before, Role::T) else { return Ok(()) };
    let len = before.length(&t);
    let Some(i) = resolve_pos(len, pos) else { return Ok(()) };
    if i > len {
        return Ok(());
    }
    let r = ref_of_changes(&before.get_changes(&[]), enc);
    if r.unsupported.is_some() {
        return Ok(());
    }
    let tid = {
        let s = t.to_string();
        let (c, a) = s.split_once('@').unwrap();
        Some(Id { ctr: c.parse().unwrap(), actor: hex::decode(a).unwrap() })
    };
    let (visible, marks) = r.mark_details(&tid);
    if visible.len() != len {
        // multi-unit elements: the unit index is not an element index here; this oracle only runs
        // where they coincide
        return Ok(());
    }
    // neighbours of the insertion point in the element sequence
    let left = if i > 0 { Some(visible[i - 1]) } else { None };
    let right = if i < len { Some(visible[i]) } else { None };
    let covers = |m: &crate::refmodel::MarkDetail, p: Option<usize>| -> bool {
        match p {
            None => false,
            Some(p) => m.begin < p && m.end.is_none_or(|e| e > p),
        }
    };
    // visible extent of a mark: it covers at least one visible element
    let has_extent = |m: &crate::refmodel::MarkDetail| visible.iter().any(|&p| covers(m, Some(p)));
    // marks anchored at this boundary: an anchor lies strictly between the two neighbours
    let lo = left.map(|p| p as isize).unwrap_or(-1);
    let hi = right.map(|p| p as isize).unwrap_or(isize::MAX);
    let anchored_here = |m: &crate::refmodel::MarkDetail| {
        let b = m.begin as isize;
        let e = m.end.map(|e| e as isize).unwrap_or(isize::MAX - 1);
        (b > lo && b < hi) || (e > lo && e < hi)
    };
    // With several anchors at one boundary the expand settings can contradict each other (no
    // insertion point satisfies all of them), so the rule is asserted where it is unambiguous:
    // at most one anchor between the two neighbours.
    let anchors_here: usize = marks
        .iter()
        .map(|m| {
            let b = m.begin as isize;
            let e = m.end.map(|e| e as isize).unwrap_or(isize::MAX - 1);
            (b > lo && b < hi) as usize + (e > lo && e < hi) as usize
        })
        .sum();
    if anchors_here > 1 {
        rep.count("boundary_insertions_ambiguous_skipped", 1);
        return Ok(());
    }
    let mut names: BTreeSet<String> = marks.iter().map(|m| m.name.clone()).collect();
    // the statement is unambiguous only for names all of whose marks at this boundary have extent
    names.retain(|n| marks.iter().filter(|m| &m.name == n && anchored_here(m)).all(has_extent));
    let mut want: BTreeMap<String, String> = BTreeMap::new();
    for n in names.iter() {
        let mut best: Option<&crate::refmodel::MarkDetail> = None;
        for m in marks.iter().filter(|m| &m.name == n) {
            let (cl, cr) = (covers(m, left), covers(m, right));
            let covered = (cl && cr) || (cl && !cr && m.expand_after) || (!cl && cr && m.expand_before);
            if covered && best.is_none_or(|b| m.id > b.id) {
                best = Some(m);
            }
        }
        if let Some(m) = best {
            if !matches!(m.value, ScalarValue::Null) {
                want.insert(n.clone(), render_scalar(&m.value));
            }
        }
    }
    // what the document reports for the inserted text
    let Some((t2, _)) = resolve(after, Role::T) else { return Ok(()) };
    let w = s.chars().count();
    for u in i..i + w {
        let got = after.get_marks(&t2, u, None).map_err(|e| Violation::new("get_marks", "Err", format!("{:?}", e)))?;
        let mut got = render_markset(&got);
        got.retain(|k, _| names.contains(k));
        if got != want {
            let kinds: Vec<String> = marks
                .iter()
                .filter(|m| anchored_here(m))
                .map(|m| format!("{}:{}{}", m.name, if m.expand_before { "B" } else { "b" }, if m.expand_after { "A" } else { "a" }))
                .collect();
            return Err(Violation::new(
                "boundary-rule",
                format!("{}", if left.is_none() { "at-start" } else if right.is_none() { "at-end" } else { "inside" }),
                format!("inserting {:?} at {} of {:?}: inserted unit {} has marks {:?}, the expand rule gives {:?} (marks anchored here: {:?})", s, i, before.text(&t).unwrap_or_default(), u, got, want, kinds),
            ));
        }
    }
    rep.count("boundary_insertions_checked", 1);
    Ok(())
}

fn marks_survive_reload(d: &Automerge) -> Result<(), Violation> {
    let l = Automerge::load(&d.save()).map_err(|e| Violation::new("load(save)-ok", "Err", format!("{:?}", e)))?;
    let (a, b) = (obs_of(d), obs_of(&l));
    for (k, n) in a.objs.iter() {
        if let (ONode::Text(x), Some(ONode::Text(y))) = (n, b.objs.get(k)) {
            if x.marks != y.marks || x.unit_marks != y.unit_marks || x.spans != y.spans {
                return Err(Violation::new("marks-survive-reload", "marks", format!("text {}: marks {:?} became {:?}", k, x.marks, y.marks)));
            }
        }
    }
    Ok(())
}

pub fn run(args: &Args) -> i32 {
    let rep = Arc::new(new_report("C25", args, "model_checking"));
    let enc = TextEncoding::UnicodeCodePoint;
    let mut models = vec![];
    let cfgs: Vec<(&str, &str, Vec<u8>, u8)> = if args.thorough() {
        vec![("marks", "B1", vec![3, 2], 2), ("marks", "B2", vec![2, 2], 2), ("text", "B2", vec![2, 2], 1), ("marks", "B1", vec![2, 1, 1], 2)]
    } else {
        vec![("marks", "B1", vec![2, 1], 1), ("marks", "B2", vec![2, 1], 1), ("text", "B2", vec![1, 1], 1)]
    };
    for (theme, bname, edits, merges) in cfgs {
        let mut h = History::new(theme, bname, enc, &edits, merges);
        let b = base(bname, enc);
        let base_hashes: BTreeSet<ChangeHash> = b.get_changes(&[]).iter().map(|c| c.hash()).collect();
        let seen: Mutex<HashSet<Vec<String>>> = Mutex::new(HashSet::new());
        let rep2 = rep.clone();
        h.state_oracle = Some(Box::new(move |w: &World| {
            let mut pool: Vec<Automerge> = w.docs.clone();
            for i in 0..w.docs.len() {
                for j in (i + 1)..w.docs.len() {
                    let mut a = w.docs[i].clone();
                    a.merge(&mut w.docs[j].clone()).map_err(|e| Violation::new("merge-ok", "Err", format!("{:?}", e)))?;
                    pool.push(a);
                }
            }
            for d in pool.iter() {
                if !seen.lock().unwrap().insert(hstr(&d.get_heads())) && !crate::util::replaying() {
                    continue;
                }
                // marks(), get_marks(i) for every i and spans() all equal the Peritext reference
                ref_check(d, enc, "replica")?;
                marks_survive_reload(d)?;
                // historical reads: the walked computation at H vs the indexed one on fork_at(H)
                let g = Graph::new(d.get_changes(&[]));
                for hs in g.head_sets_above(&base_hashes, 6) {
                    check_at(d, &g, &hs, enc)?;
                }
                rep2.count("evaluations", 1);
            }
            Ok(())
        }));
        let rep3 = rep.clone();
        h.edge_oracle = Some(Box::new(move |s: &World, a: &HAct, n: &World| match a {
            HAct::Edit(r, op) => boundary_rule(&s.docs[*r], &n.docs[*r], op, enc, &rep3),
            _ => Ok(()),
        }));
        models.push((h.label(theme), h));
    }
    let lim = Limits {
        max_wall_s: if args.thorough() { 1700.0 } else { 45.0 },
        ..Default::default()
    };
    let ex = run_models(&rep, args, models, &lim).unwrap_or(false);
    rep.finish(
        "history explorer over the marks theme (overlapping ranges, bold / link / unmark, all four expand settings, zero-width marks, inserts and deletes at both ends and in the middle, a block) and the text theme on bases B1/B2 incl. merges; state oracle on every distinct document (replicas and merges): marks(), get_marks(i) for EVERY unit and spans() all equal the Peritext reference (highest-id covering mark per name, null = unmarked) computed from the decoded ops; identical after save/load; at every consistent cut H the walked marks_at/get_marks(H)/spans_at equal the indexed reads on fork_at(H); edge oracle on every insert-only splice: the inserted units carry exactly the marks the expand rule gives from the marks' anchor positions (covered if the mark covers both neighbours, or ends here and expands after, or begins here and expands before), asserted at boundaries holding at most one mark anchor (several anchors can make the expand settings contradictory) and for marks with visible extent",
        &["boundary rule evaluated where unit index = element index (code-point encoding, single-code-point elements)"],
        ex,
    )
}
