//! C24 — text indexes are consistent in every text encoding.

use super::c02::ref_check;
use super::c09::AModel;
use super::{new_report, run_models, Args, ENCODINGS};
use crate::explore::Limits;
use crate::obs::{hstr, ONode};
use crate::refmodel::{units_from_spans, width};
use crate::report::{Report, Violation};
use crate::world::{obs_of, History, World};
use automerge::{Automerge, MoveCursor, ObjType, ReadDoc, TextEncoding};
use std::collections::HashSet;
use std::sync::{Arc, Mutex};

pub fn text_checks(d: &Automerge, enc: TextEncoding, rep: &Report) -> Result<(), Violation> {
    let o = obs_of(d);
    for (id, n) in o.objs.iter() {
        let ONode::Text(t) = n else { continue };
        let obj = d.import_obj(id).map_err(|e| Violation::new("import_obj", "Err", format!("{:?}", e)))?;
        let site = format!("{:?}", enc);
        // length == width of the string
        let w = width(enc, &t.text);
        if t.len != w {
            return Err(Violation::new("length==width(text)", site, format!("text {:?}: length() = {} but its width in {:?} is {}", t.text, t.len, enc, w)));
        }
        // spans concatenate to the text
        let (st, su) = units_from_spans(enc, &t.spans);
        if st != t.text {
            return Err(Violation::new("concat(spans)==text", site, format!("spans give {:?}, text is {:?}", st, t.text)));
        }
        if su.len() != t.len {
            return Err(Violation::new("concat(spans)==text", format!("{}:width", site), format!("spans cover {} units, length is {}", su.len(), t.len)));
        }
        // element starts (harness: cumulative widths of the element strings)
        let starts: Vec<usize> = t.elems.iter().map(|e| e.0).collect();
        let mut bounds: HashSet<usize> = starts.iter().cloned().collect();
        bounds.insert(t.len);
        // marks() ranges are element aligned
        for (s, e, name, _) in t.marks.iter() {
            if !bounds.contains(s) || !bounds.contains(e) {
                return Err(Violation::new("marks-element-aligned", site, format!("mark {} [{}, {}) is not aligned to element boundaries {:?} of {:?}", name, s, e, starts, t.text)));
            }
        }
        // get(i) for every unit returns the element covering it; cursors resolve to its start
        for i in 0..t.len {
            let covering = starts.iter().rposition(|&s| s <= i).unwrap();
            let want_id = t.elems[covering].1.last().map(|v| v.id.clone());
            let got = d.get(&obj, i).map_err(|e| Violation::new("get(i)", "Err", format!("{:?}", e)))?;
            let got_id = got.map(|(_, id)| id.to_string());
            if got_id != want_id {
                return Err(Violation::new("get(i)-covers", site, format!("get({}) of {:?} returned {:?}, element covering unit {} is {:?}", i, t.text, got_id, i, want_id)));
            }
            for mv in [true, false] {
                let c = d
                    .get_cursor_moving(&obj, i, None, if mv { MoveCursor::After } else { MoveCursor::Before })
                    .map_err(|e| Violation::new("get_cursor", site.clone(), format!("index {} of {:?}: {:?}", i, t.text, e)))?;
                let p = d.get_cursor_position(&obj, &c, None).map_err(|e| Violation::new("get_cursor_position", site.clone(), format!("{:?}", e)))?;
                if p != starts[covering] {
                    return Err(Violation::new(
                        "cursor-element-aligned",
                        site,
                        format!("cursor taken at unit {} of {:?} resolves to {} (element starts at {})", i, t.text, p, starts[covering]),
                    ));
                }
            }
        }
        rep.count("texts_checked", 1);
    }
    let _ = ObjType::Text;
    Ok(())
}

pub fn run(args: &Args) -> i32 {
    let rep = Arc::new(new_report("C24", args, "model_checking"));
    let mut models = vec![];
    for enc in ENCODINGS {
        for (theme, bname, edits, merges) in [("unicode", "B1", vec![2u8, 1], 1u8), ("unicode", "B2", vec![1, 1], 1), ("text", "B2", vec![1, 1], 1)] {
            let edits = if args.thorough() && bname == "B1" { vec![3, 2] } else if args.thorough() { vec![2, 2] } else { edits };
            let mut h = History::new(theme, bname, enc, &edits, if args.thorough() { 2 } else { merges });
            let seen: Mutex<HashSet<Vec<String>>> = Mutex::new(HashSet::new());
            let rep2 = rep.clone();
            h.state_oracle = Some(Box::new(move |w: &World| {
                let mut pool: Vec<Automerge> = w.docs.clone();
                for i in 0..w.docs.len() {
                    for j in (i + 1)..w.docs.len() {
                        let mut a = w.docs[i].clone();
                        a.merge(&mut w.docs[j].clone()).map_err(|e| Violation::new("merge-ok", "Err", format!("{:?}", e)))?;
                        pool.push(a);
                    }
                }
                for d in pool.iter() {
                    if !seen.lock().unwrap().insert(hstr(&d.get_heads())) && !crate::util::replaying() {
                        continue;
                    }
                    ref_check(d, enc, "replica")?;
                    text_checks(d, enc, &rep2)?;
                    rep2.count("evaluations", 1);
                }
                Ok(())
            }));
            models.push((h.label(theme), h));
        }
    }
    let lim = Limits {
        max_wall_s: if args.thorough() { 900.0 } else { 25.0 },
        ..Default::default()
    };
    let ex1 = run_models(&rep, args, models, &lim);
    // patch indexes: views kept in units by diff_incremental, under every encoding
    let mut amodels = vec![];
    for enc in ENCODINGS {
        let (edits, others) = if args.thorough() { (vec![2, 2], 2) } else { (vec![2, 1], 1) };
        amodels.push((
            format!("autocommit[unicode B1 L={:?} others={} {:?}]", edits, others, enc),
            AModel { ops: crate::alphabet::theme("unicode").to_vec(), base: "B1".into(), enc, edits, others, isolate: false },
        ));
    }
    let lim = Limits {
        max_wall_s: if args.thorough() { 900.0 } else { 25.0 },
        ..Default::default()
    };
    let ex2 = run_models(&rep, args, amodels, &lim);
    let ex = ex1.unwrap_or(false) && ex2.unwrap_or(ex1.is_some());
    rep.finish(
        "for each of the four text encodings: history explorer over the multi-unit alphabet (é, 😀, e+U+0301, a ZWJ family emoji; inserts, deletes spanning characters, put on a text element, block markers, marks with three expand modes) on bases B1/B2; for every distinct document (replicas and merges): the reference interpreter with the harness's own width functions (unicode-segmentation for graphemes) must agree on text, length, element start indexes and per-unit marks; additionally length == width(text()), concat(spans) == text with the same unit count, marks() ranges are element-aligned, get(i) for EVERY unit returns the element covering it, and a cursor taken at any unit resolves to that element's start in both move modes; plus the AutoCommit view explorer under each encoding: every patch index must land on an element boundary of a view kept in units",
        &["the alphabet contains no lone combining marks, so element-wise and whole-string grapheme counts coincide"],
        ex,
    )
}
