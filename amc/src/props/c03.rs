//! C03 — local edits have their documented sequential effect.
//!
//! A sequential specification over an id-free projection of the observation: `spec(pre, call)`
//! predicts the projection after the call; it is compared with what the document shows inside the
//! open transaction and after commit. Everything the call does not name must be unchanged because
//! whole projections are compared.

use super::docpool::{run_pool, DocInfo, PoolCfg};
use super::{Args, ENCODINGS};
use crate::alphabet::{apply, resolve_pos, Applied, Key, Op, Pos, Role, Val, THEMES};
use crate::obs::{observe, render_scalar, ONode, OVal, Obs};
use crate::refmodel::width;
use crate::report::{Report, Violation};
use automerge::transaction::Transactable;
use automerge::{AutoCommit, Automerge, ObjType, ReadDoc, ScalarValue, TextEncoding};
use std::collections::BTreeMap;
use std::sync::Arc;
use unicode_segmentation::UnicodeSegmentation;

#[derive(Clone, Debug, PartialEq)]
pub enum P {
    Scalar(String),
    Counter(i64),
    Map(BTreeMap<String, Vec<P>>),
    List(Vec<Vec<P>>),
    Text(Vec<PElem>),
}

#[derive(Clone, Debug, PartialEq)]
pub struct PElem {
    pub vals: Vec<P>,
    pub marks: BTreeMap<String, String>,
    /// marks of this element are not predicted by the spec (freshly inserted text)
    pub marks_unknown: bool,
}

fn p_of_val(o: &Obs, v: &OVal) -> P {
    if v.v.starts_with('<') {
        p_of_obj(o, &v.id)
    } else if let Some(rest) = v.v.strip_prefix("Counter(") {
        P::Counter(rest.trim_end_matches(')').parse().unwrap_or(0))
    } else {
        P::Scalar(v.v.clone())
    }
}

fn p_of_obj(o: &Obs, id: &str) -> P {
    match o.objs.get(id) {
        Some(ONode::Map(m)) | Some(ONode::Table(m)) => P::Map(m.iter().map(|(k, vs)| (k.clone(), vs.iter().map(|v| p_of_val(o, v)).collect())).collect()),
        Some(ONode::List(l)) => P::List(l.iter().map(|vs| vs.iter().map(|v| p_of_val(o, v)).collect()).collect()),
        Some(ONode::Text(t)) => P::Text(
            t.elems
                .iter()
                .map(|(start, vs)| PElem {
                    vals: vs.iter().map(|v| p_of_val(o, v)).collect(),
                    marks: t.unit_marks.get(*start).cloned().unwrap_or_default(),
                    marks_unknown: false,
                })
                .collect(),
        ),
        Some(ONode::Err(e)) => P::Scalar(format!("ERR {}", e)),
        None => P::Scalar("MISSING".into()),
    }
}

pub fn project(o: &Obs) -> P {
    p_of_obj(o, "_root")
}

fn elem_str(e: &PElem) -> String {
    match e.vals.last() {
        Some(P::Scalar(s)) if s.starts_with("Str(") => {
            let inner = &s[4..s.len() - 1];
            crate::view::unescape_debug(inner)
        }
        Some(_) => "\u{fffc}".to_string(),
        None => String::new(),
    }
}

fn text_len(enc: TextEncoding, t: &[PElem]) -> usize {
    t.iter().map(|e| width(enc, &elem_str(e))).sum()
}

/// element index whose first unit is `unit`; None if `unit` falls inside an element
fn elem_at(enc: TextEncoding, t: &[PElem], unit: usize) -> Option<usize> {
    let mut u = 0;
    for (i, e) in t.iter().enumerate() {
        if u == unit {
            return Some(i);
        }
        u += width(enc, &elem_str(e));
        if u > unit {
            return None;
        }
    }
    if u == unit {
        Some(t.len())
    } else {
        None
    }
}

fn winner_mut<'a>(slot: &'a mut Vec<P>) -> Option<&'a mut P> {
    slot.last_mut()
}

fn get_role<'a>(root: &'a mut P, r: Role) -> Option<&'a mut P> {
    fn key<'a>(p: &'a mut P, k: &str) -> Option<&'a mut P> {
        match p {
            P::Map(m) => m.get_mut(k).and_then(winner_mut),
            _ => None,
        }
    }
    match r {
        Role::Root => Some(root),
        Role::M => key(root, "m").filter(|p| matches!(p, P::Map(_))),
        Role::L => key(root, "l").filter(|p| matches!(p, P::List(_))),
        Role::T => key(root, "t").filter(|p| matches!(p, P::Text(_))),
        Role::MM => key(root, "m").filter(|p| matches!(p, P::Map(_))).and_then(|m| key(m, "m")).filter(|p| matches!(p, P::Map(_))),
        Role::ML => key(root, "m").filter(|p| matches!(p, P::Map(_))).and_then(|m| key(m, "l")).filter(|p| matches!(p, P::List(_))),
        Role::LO => match key(root, "l") {
            Some(P::List(l)) => l.iter_mut().filter_map(|s| s.last_mut()).find(|p| matches!(p, P::Map(_) | P::List(_) | P::Text(_))),
            _ => None,
        },
        Role::A => key(root, "a").filter(|p| matches!(p, P::Map(_) | P::List(_) | P::Text(_))),
    }
}

fn pval(v: &Val) -> P {
    match v.scalar() {
        ScalarValue::Counter(c) => P::Counter(i64::from(&c)),
        s => P::Scalar(render_scalar(&s)),
    }
}

fn pobj(t: ObjType) -> P {
    match t {
        ObjType::Map | ObjType::Table => P::Map(BTreeMap::new()),
        ObjType::List => P::List(vec![]),
        ObjType::Text => P::Text(vec![]),
    }
}

pub enum Spec {
    Disabled,
    /// the call is outside what the documentation pins down (index inside a multi-unit element):
    /// only weak assertions apply
    Unspecified,
    Ok,
}

fn apply_increment(slot: &mut Vec<P>, n: i64) {
    slot.retain(|p| matches!(p, P::Counter(_)));
    for p in slot.iter_mut() {
        if let P::Counter(c) = p {
            *c = c.wrapping_add(n);
        }
    }
}

/// the sequential specification
pub fn spec(root: &mut P, op: &Op, enc: TextEncoding) -> Spec {
    match op {
        Op::Both(a, b) => match spec(root, a, enc) {
            Spec::Ok => spec(root, b, enc),
            x => x,
        },
        Op::Put(r, Key::K(k), v) => match get_role(root, *r) {
            Some(P::Map(m)) => {
                // a put of the value the key already shows is documented as a no-op
                m.insert(k.to_string(), vec![pval(v)]);
                Spec::Ok
            }
            _ => Spec::Disabled,
        },
        Op::PutObj(r, Key::K(k), t) => match get_role(root, *r) {
            Some(P::Map(m)) => {
                m.insert(k.to_string(), vec![pobj(*t)]);
                Spec::Ok
            }
            _ => Spec::Disabled,
        },
        Op::Del(r, Key::K(k)) => match get_role(root, *r) {
            Some(P::Map(m)) => {
                if m.remove(*k).is_some() {
                    Spec::Ok
                } else {
                    Spec::Disabled
                }
            }
            _ => Spec::Disabled,
        },
        Op::Inc(r, Key::K(k), n) => match get_role(root, *r) {
            Some(P::Map(m)) => match m.get_mut(*k) {
                Some(slot) if slot.iter().any(|p| matches!(p, P::Counter(_))) => {
                    apply_increment(slot, *n);
                    Spec::Ok
                }
                _ => Spec::Disabled,
            },
            _ => Spec::Disabled,
        },
        Op::Put(r, Key::I(p), v) | Op::Ins(r, p, v) => {
            let insert = matches!(op, Op::Ins(..));
            match get_role(root, *r) {
                Some(P::List(l)) => {
                    let len = l.len();
                    match resolve_pos(len, *p) {
                        Some(i) if insert && i <= len => {
                            l.insert(i, vec![pval(v)]);
                            Spec::Ok
                        }
                        Some(i) if !insert && i < len => {
                            l[i] = vec![pval(v)];
                            Spec::Ok
                        }
                        _ => Spec::Disabled,
                    }
                }
                Some(P::Text(t)) => {
                    let len = text_len(enc, t);
                    match resolve_pos(len, *p) {
                        Some(u) if (insert && u <= len) || (!insert && u < len) => match elem_at(enc, t, u) {
                            Some(i) => {
                                if insert {
                                    t.insert(i, PElem { vals: vec![pval(v)], marks: BTreeMap::new(), marks_unknown: true });
                                } else {
                                    let marks = t[i].marks.clone();
                                    t[i] = PElem { vals: vec![pval(v)], marks, marks_unknown: false };
                                }
                                Spec::Ok
                            }
                            None => Spec::Unspecified,
                        },
                        _ => Spec::Disabled,
                    }
                }
                _ => Spec::Disabled,
            }
        }
        Op::PutObj(r, Key::I(p), ty) | Op::InsObj(r, p, ty) => {
            let insert = matches!(op, Op::InsObj(..));
            match get_role(root, *r) {
                Some(P::List(l)) => {
                    let len = l.len();
                    match resolve_pos(len, *p) {
                        Some(i) if insert && i <= len => {
                            l.insert(i, vec![pobj(*ty)]);
                            Spec::Ok
                        }
                        Some(i) if !insert && i < len => {
                            l[i] = vec![pobj(*ty)];
                            Spec::Ok
                        }
                        _ => Spec::Disabled,
                    }
                }
                Some(P::Text(_)) => Spec::Unspecified,
                _ => Spec::Disabled,
            }
        }
        Op::Del(r, Key::I(p)) => match get_role(root, *r) {
            Some(P::List(l)) => match resolve_pos(l.len(), *p) {
                Some(i) if i < l.len() => {
                    l.remove(i);
                    Spec::Ok
                }
                _ => Spec::Disabled,
            },
            Some(P::Text(t)) => {
                let len = text_len(enc, t);
                match resolve_pos(len, *p) {
                    Some(u) if u < len => match elem_at(enc, t, u) {
                        Some(i) => {
                            t.remove(i);
                            Spec::Ok
                        }
                        None => Spec::Unspecified,
                    },
                    _ => Spec::Disabled,
                }
            }
            _ => Spec::Disabled,
        },
        Op::Inc(r, Key::I(p), n) => match get_role(root, *r) {
            Some(P::List(l)) => match resolve_pos(l.len(), *p) {
                Some(i) if i < l.len() && l[i].iter().any(|p| matches!(p, P::Counter(_))) => {
                    apply_increment(&mut l[i], *n);
                    Spec::Ok
                }
                _ => Spec::Disabled,
            },
            _ => Spec::Disabled,
        },
        Op::Splice(r, p, del, s) => match get_role(root, *r) {
            Some(P::Text(t)) => {
                let len = text_len(enc, t);
                match resolve_pos(len, *p) {
                    Some(u) if u <= len => {
                        let del = (*del).min(len - u);
                        if del == 0 && s.is_empty() {
                            return Spec::Disabled;
                        }
                        let (Some(i), Some(j)) = (elem_at(enc, t, u), elem_at(enc, t, u + del)) else {
                            return Spec::Unspecified;
                        };
                        let pieces: Vec<String> = match enc {
                            TextEncoding::GraphemeCluster => s.graphemes(true).map(|g| g.to_string()).collect(),
                            _ => s.chars().map(|c| c.to_string()).collect(),
                        };
                        let new: Vec<PElem> = pieces
                            .into_iter()
                            .map(|c| PElem { vals: vec![P::Scalar(render_scalar(&ScalarValue::Str(c.into())))], marks: BTreeMap::new(), marks_unknown: true })
                            .collect();
                        t.splice(i..j, new);
                        Spec::Ok
                    }
                    _ => Spec::Disabled,
                }
            }
            _ => Spec::Disabled,
        },
        Op::Mark(r, a, b, name, v, _e) => match get_role(root, *r) {
            Some(P::Text(t)) => {
                let len = text_len(enc, t);
                match (resolve_pos(len, *a), resolve_pos(len, *b)) {
                    (Some(x), Some(y)) if x <= y && y <= len => {
                        let (Some(i), Some(j)) = (elem_at(enc, t, x), elem_at(enc, t, y)) else {
                            return Spec::Unspecified;
                        };
                        let val = v.scalar();
                        for e in t[i..j].iter_mut() {
                            if matches!(val, ScalarValue::Null) {
                                e.marks.remove(*name);
                            } else {
                                e.marks.insert(name.to_string(), render_scalar(&val));
                            }
                        }
                        Spec::Ok
                    }
                    _ => Spec::Disabled,
                }
            }
            _ => Spec::Disabled,
        },
        Op::SplitBlock(r, p) => match get_role(root, *r) {
            Some(P::Text(t)) => {
                let len = text_len(enc, t);
                match resolve_pos(len, *p) {
                    Some(u) if u <= len => match elem_at(enc, t, u) {
                        Some(i) => {
                            t.insert(i, PElem { vals: vec![P::Map(BTreeMap::new())], marks: BTreeMap::new(), marks_unknown: true });
                            Spec::Ok
                        }
                        None => Spec::Unspecified,
                    },
                    _ => Spec::Disabled,
                }
            }
            _ => Spec::Disabled,
        },
        Op::JoinBlock(r, p) => match get_role(root, *r) {
            Some(P::Text(t)) => {
                let len = text_len(enc, t);
                match resolve_pos(len, *p) {
                    Some(u) if u < len => match elem_at(enc, t, u) {
                        Some(i) if matches!(t[i].vals.last(), Some(P::Map(_))) => {
                            t.remove(i);
                            Spec::Ok
                        }
                        Some(_) => Spec::Disabled,
                        None => Spec::Unspecified,
                    },
                    _ => Spec::Disabled,
                }
            }
            _ => Spec::Disabled,
        },
    }
}

/// compare, ignoring marks the spec does not predict
fn same(want: &P, got: &P) -> bool {
    match (want, got) {
        (P::Map(a), P::Map(b)) => a.len() == b.len() && a.iter().all(|(k, va)| b.get(k).is_some_and(|vb| va.len() == vb.len() && va.iter().zip(vb).all(|(x, y)| same(x, y)))),
        (P::List(a), P::List(b)) => a.len() == b.len() && a.iter().zip(b).all(|(x, y)| x.len() == y.len() && x.iter().zip(y).all(|(p, q)| same(p, q))),
        (P::Text(a), P::Text(b)) => {
            a.len() == b.len()
                && a.iter().zip(b).all(|(x, y)| {
                    x.vals.len() == y.vals.len() && x.vals.iter().zip(&y.vals).all(|(p, q)| same(p, q)) && (x.marks_unknown || matches!(x.vals.last(), Some(P::Map(_))) || x.marks == y.marks)
                })
        }
        (a, b) => a == b,
    }
}

pub fn render(p: &P) -> String {
    match p {
        P::Scalar(s) => s.clone(),
        P::Counter(c) => format!("Counter({})", c),
        P::Map(m) => format!("{{{}}}", m.iter().map(|(k, v)| format!("{}:{}", k, v.iter().map(render).collect::<Vec<_>>().join("|"))).collect::<Vec<_>>().join(",")),
        P::List(l) => format!("[{}]", l.iter().map(|v| v.iter().map(render).collect::<Vec<_>>().join("|")).collect::<Vec<_>>().join(",")),
        P::Text(t) => format!(
            "T[{}]",
            t.iter()
                .map(|e| format!("{}{}", e.vals.iter().map(render).collect::<Vec<_>>().join("|"), if e.marks.is_empty() { String::new() } else { format!("{:?}", e.marks) }))
                .collect::<Vec<_>>()
                .join(",")
        ),
    }
}

fn op_name(op: &Op) -> String {
    let s = format!("{:?}", op);
    s.split('(').next().unwrap_or("?").to_string()
}

fn check_doc(d: &Automerge, info: &DocInfo, rep: &Report) -> Result<(), Violation> {
    if info.kind != "replica" {
        return Ok(());
    }
    let enc = info.enc;
    let pre = project(&observe(d, None, &[]));
    let bytes = d.save();
    let mut scratch = d.clone();
    let extra = d.get_changes(&[]).len().saturating_sub(info.base_hashes.len());
    let with_autocommit = rep.tier == "thorough" || extra <= 1;
    let menu: Vec<&Op> = THEMES.iter().flat_map(|th| crate::alphabet::theme(th).iter()).chain(EXTRA_CALLS.iter()).collect();
    {
        for op in menu {
            let mut want = pre.clone();
            let verdict = spec(&mut want, op, enc);
            // (a) Automerge::transaction
            if matches!(verdict, Spec::Disabled) {
                // cheap enabledness cross-check on a shared scratch document
                let mut tx = scratch.transaction();
                let r = apply(&mut tx, op);
                let ok = matches!(r, Applied::Disabled);
                tx.rollback();
                if ok {
                    continue;
                }
                return Err(Violation::new("harness-enabledness", op_name(op), format!("{:?}: spec says not enabled, driver applied it", op)));
            }
            let mut x = d.clone();
            let mut tx = x.transaction();
            let r = apply(&mut tx, op);
            rep.count("calls", 1);
            let site = op_name(op);
            match (&verdict, r) {
                (Spec::Disabled, Applied::Disabled) => {
                    tx.rollback();
                    continue;
                }
                (Spec::Disabled, Applied::Done) | (Spec::Disabled, Applied::Err(_)) => {
                    // the driver and the spec disagree on enabledness: a harness inconsistency,
                    // reported loudly rather than ignored
                    tx.rollback();
                    return Err(Violation::new("harness-enabledness", site, format!("{:?}: spec says not enabled, driver applied it", op)));
                }
                (Spec::Unspecified, Applied::Disabled) => {
                    tx.rollback();
                    continue;
                }
                (_, Applied::Disabled) => {
                    tx.rollback();
                    return Err(Violation::new("harness-enabledness", site, format!("{:?}: spec says enabled, driver did not apply it", op)));
                }
                (_, Applied::Err(e)) => {
                    tx.rollback();
                    return Err(Violation::new("valid-call-accepted", site, format!("{:?} on {} returned Err({:?})", op, render(&pre), e)));
                }
                (Spec::Unspecified, Applied::Done) => {
                    // only: no panic, and length == width(text) after commit (checked by C24)
                    tx.commit();
                    rep.count("calls_unspecified", 1);
                    continue;
                }
                (Spec::Ok, Applied::Done) => {}
            }
            let inside = project(&observe(&tx, None, &[]));
            if !same(&want, &inside) {
                tx.rollback();
                return Err(Violation::new("effect-inside-transaction", site, format!("{:?}\n before {}\n expect {}\n  shows {}", op, render(&pre), render(&want), render(&inside))));
            }
            tx.commit();
            let after = project(&observe(&x, None, &[]));
            if !same(&want, &after) {
                return Err(Violation::new("effect-after-commit", site, format!("{:?}\n before {}\n expect {}\n  shows {}", op, render(&pre), render(&want), render(&after))));
            }
            rep.count("calls_specified", 1);
            // (b) AutoCommit
            if !with_autocommit {
                continue;
            }
            let mut ac = AutoCommit::load_with_options(&bytes, automerge::LoadOptions::new().text_encoding(enc))
                .map_err(|e| Violation::new("load-ok", "AutoCommit", format!("{:?}", e)))?
                .with_actor(d.get_actor().clone());
            match apply(&mut ac, op) {
                Applied::Done => {}
                other => {
                    return Err(Violation::new(
                        "autocommit-agrees",
                        site,
                        format!("{:?}: Automerge transaction applied it, AutoCommit {}", op, match other { Applied::Disabled => "disabled".to_string(), Applied::Err(e) => format!("Err({:?})", e), _ => String::new() }),
                    ))
                }
            }
            let inside = project(&observe(&ac, None, &[]));
            if !same(&want, &inside) {
                return Err(Violation::new("effect-inside-transaction", format!("AutoCommit:{}", site), format!("{:?}\n expect {}\n  shows {}", op, render(&want), render(&inside))));
            }
            ac.commit();
            let after = project(&observe(&ac, None, &[]));
            if !same(&want, &after) {
                return Err(Violation::new("effect-after-commit", format!("AutoCommit:{}", site), format!("{:?}\n expect {}\n  shows {}", op, render(&want), render(&after))));
            }
        }
    }
    // invalid calls return an error (that they change nothing is C06's menu)
    let mut x = d.clone();
    let mut tx = x.transaction();
    let l = crate::alphabet::resolve(&tx, Role::L).map(|x| x.0);
    let t = crate::alphabet::resolve(&tx, Role::T).map(|x| x.0);
    let mut bad: Vec<(&str, bool)> = vec![
        ("put(index on map)", tx.put(automerge::ROOT, 0usize, 1).is_err()),
        ("insert(on map)", tx.insert(automerge::ROOT, 0, 1).is_err()),
        ("increment(missing key)", tx.increment(automerge::ROOT, "no-such-key", 1).is_err()),
        ("splice_text(on map)", tx.splice_text(automerge::ROOT, 0, 0, "x").is_err()),
    ];
    if let Some(l) = &l {
        let len = tx.length(l);
        bad.push(("put(list, key)", tx.put(l, "k", 1).is_err()));
        bad.push(("insert(list, len+1)", tx.insert(l, len + 1, 1).is_err()));
        bad.push(("put(list, len)", tx.put(l, len, 1).is_err()));
        bad.push(("delete(list, len)", tx.delete(l, len).is_err()));
        if len > 0 && !matches!(tx.get(l, 0), Ok(Some((automerge::Value::Scalar(s), _))) if matches!(s.as_ref(), ScalarValue::Counter(_))) {
            let all = tx.get_all(l, 0).unwrap_or_default();
            if !all.iter().any(|(v, _)| matches!(v, automerge::Value::Scalar(s) if matches!(s.as_ref(), ScalarValue::Counter(_)))) {
                bad.push(("increment(list non-counter)", tx.increment(l, 0, 1).is_err()));
            }
        }
    }
    if let Some(t) = &t {
        let len = tx.length(t);
        bad.push(("splice_text(len+1)", tx.splice_text(t, len + 1, 0, "x").is_err()));
        bad.push(("put(text, key)", tx.put(t, "k", 1).is_err()));
    }
    tx.rollback();
    for (name, was_err) in bad {
        rep.count("invalid_calls", 1);
        if !was_err {
            return Err(Violation::new("invalid-call-rejected", name.to_string(), format!("{} returned Ok", name)));
        }
    }
    let _ = Pos::Start;
    Ok(())
}

/// Calls that are in no theme (they would enlarge every history explorer) but belong to the
/// sequential specification: scalars of every kind, in particular null, put over keys and
/// positions that hold nested objects, counters and plain scalars.
static EXTRA_CALLS: &[Op] = &[
    Op::Put(Role::Root, Key::K("m"), Val::Null),
    Op::Put(Role::Root, Key::K("l"), Val::Null),
    Op::Put(Role::Root, Key::K("t"), Val::Null),
    Op::Put(Role::Root, Key::K("a"), Val::Null),
    Op::Put(Role::Root, Key::K("c"), Val::Null),
    Op::Put(Role::Root, Key::K("m"), Val::Int(0)),
    Op::Put(Role::Root, Key::K("l"), Val::Str("")),
    Op::Put(Role::M, Key::K("m"), Val::Null),
    Op::Put(Role::M, Key::K("l"), Val::Null),
    Op::Put(Role::L, Key::I(Pos::Start), Val::Null),
    Op::Put(Role::L, Key::I(Pos::Last), Val::Null),
    Op::Ins(Role::L, Pos::Start, Val::Null),
    Op::Put(Role::ML, Key::I(Pos::Last), Val::Null),
    Op::Put(Role::Root, Key::K("a"), Val::Uint(u64::MAX)),
    Op::Put(Role::Root, Key::K("a"), Val::F64(-0.5)),
    Op::Put(Role::Root, Key::K("a"), Val::Ts(-1)),
    Op::Put(Role::Root, Key::K("a"), Val::Bool(false)),
    Op::Put(Role::Root, Key::K("a"), Val::Bytes(&[0, 255])),
    Op::Put(Role::L, Key::I(Pos::Start), Val::Bool(false)),
];

pub fn run(args: &Args) -> i32 {
    run_pool(
        "C03",
        args,
        "model_checking",
        PoolCfg {
            quick_scale: 0,
            thorough_scale: 1,
            merged: false,
            encodings: ENCODINGS.to_vec(),
            budgets: if args.thorough() { None } else { Some((vec![1, 1], 1)) },
            ..Default::default()
        },
        Arc::new(check_doc),
        "start states = every distinct replica document reached by the history explorer (conflicts, tombstones, marks, blocks present; 4 text encodings for the text-bearing themes) x every call of the whole alphabet (all five themes: put / put_object / delete / increment on maps and lists, insert / insert_object, splice_text with deletes, put/insert of scalars into text, mark / unmark with all expand modes, split_block / join_block): a sequential specification over an id-free projection (conflict lists, counters, element lists, per-element marks) predicts the state; it must equal what the open transaction shows and what the document shows after commit, on Automerge::transaction and on AutoCommit; plus a battery of invalid calls that must return Err",
        &["marks of freshly inserted text are not predicted here (C25's boundary rule); indexes inside a multi-unit element only get 'no panic'"],
    )
}
