//! C37 — public API calls never panic.

use super::docpool::{run_pool, DocInfo, PoolCfg};
use super::Args;
use crate::graph::Graph;
use crate::obs::{hstr, reachable};
use crate::report::{Report, Violation};
use crate::util::guard;
use crate::world::actor;
use automerge::marks::{ExpandMark, Mark};
use automerge::transaction::Transactable;
use automerge::{AutoCommit, Automerge, ChangeHash, Cursor, ObjId, ObjType, ReadDoc, ScalarValue, ROOT};
use std::sync::Arc;

fn call<T>(site: &str, what: &str, f: impl FnOnce() -> T) -> Result<(), Violation> {
    match guard(f) {
        Ok(_) => Ok(()),
        Err(p) => Err(Violation::new("panic", format!("{}@{}", site, p.location), format!("{}: {}", what, p.message))),
    }
}

fn battery(d: &Automerge, info: &DocInfo, rep: &Report) -> Result<(), Violation> {
    if info.kind == "with-orphans" {
        return Ok(());
    }
    // ---- argument menus --------------------------------------------------------------------
    let mut other = Automerge::new().with_actor(actor(0x77));
    let (foreign_map, foreign_list, foreign_text) = {
        let mut tx = other.transaction();
        for i in 0..45 {
            tx.put(ROOT, "pad", i).unwrap();
        }
        let m = tx.put_object(ROOT, "m", ObjType::Map).unwrap();
        let l = tx.put_object(ROOT, "l", ObjType::List).unwrap();
        tx.insert(&l, 0, 1).unwrap();
        let t = tx.put_object(ROOT, "t", ObjType::Text).unwrap();
        tx.splice_text(&t, 0, 0, "foreign").unwrap();
        tx.commit();
        (m, l, t)
    };
    let mut objs: Vec<(String, ObjId)> = vec![("root".into(), ROOT)];
    for (id, ty) in reachable(d, None).into_iter().filter(|x| x.0 != ROOT).take(6) {
        objs.push((format!("{:?}", ty), id));
    }
    objs.push(("foreign-map(unknown actor)".into(), foreign_map));
    objs.push(("foreign-list(unknown actor)".into(), foreign_list.clone()));
    objs.push(("foreign-text(unknown actor)".into(), foreign_text.clone()));
    // a known actor with a counter the document never issued, and a scalar's id
    if let Some(c) = d.get_changes(&[]).last() {
        if let Ok(id) = d.import_obj(&format!("{}@{}", c.max_op() + 1000, c.actor_id().to_hex_string())) {
            objs.push(("known-actor-unknown-counter".into(), id));
        }
    }
    if let Ok(Some((_, id))) = d.get(ROOT, "c") {
        objs.push(("id-of-a-scalar".into(), id));
    }
    let g = Graph::new(d.get_changes(&[]));
    let cur = d.get_heads();
    let mut heads: Vec<(String, Vec<ChangeHash>)> = vec![("empty".into(), vec![]), ("current".into(), cur.clone()), ("unknown".into(), vec![ChangeHash([0xAB; 32])])];
    if let Some(h) = cur.first() {
        heads.push(("duplicated".into(), vec![*h, *h]));
        heads.push(("known+unknown".into(), vec![*h, ChangeHash([0xCD; 32])]));
        if let Some(dep) = g.changes[g.idx[h]].deps().first() {
            heads.push(("not-an-antichain".into(), vec![*dep, *h]));
        }
    }
    heads.push(("foreign".into(), other.get_heads()));
    let idxs = |len: usize| -> Vec<usize> { vec![0, len.saturating_sub(1), len, len + 1, usize::MAX - 1, usize::MAX] };
    let foreign_cursor_list = other.get_cursor(&foreign_list, 0, None).unwrap();
    let foreign_cursor_text = other.get_cursor(&foreign_text, 2, None).unwrap();
    let mut cursors: Vec<(String, Cursor)> = vec![("foreign-list".into(), foreign_cursor_list), ("foreign-text".into(), foreign_cursor_text), ("start".into(), Cursor::Start), ("end".into(), Cursor::End)];
    // cursors of this document's own sequences, to be used on the WRONG object
    for (_, id) in objs.iter() {
        if matches!(d.object_type(id), Ok(ObjType::List) | Ok(ObjType::Text)) && d.length(id) > 0 {
            if let Ok(c) = d.get_cursor(id, 0, None) {
                cursors.push((format!("own:{}", id), c));
            }
        }
    }
    let mut calls = 0u64;
    // ---- reads -----------------------------------------------------------------------------
    for (oname, obj) in objs.iter() {
        let len = d.length(obj);
        for (hname, h) in heads.iter() {
            let w = format!("obj={} heads={}", oname, hname);
            call("keys_at", &w, || d.keys_at(obj, h).count())?;
            call("length_at", &w, || d.length_at(obj, h))?;
            call("text_at", &w, || d.text_at(obj, h).ok())?;
            call("marks_at", &w, || d.marks_at(obj, h).ok())?;
            call("spans_at", &w, || d.spans_at(obj, h).map(|s| s.count()).ok())?;
            call("values_at", &w, || d.values_at(obj, h).count())?;
            call("hydrate", &w, || ReadDoc::hydrate(d, obj, Some(h)).ok())?;
            call("parents_at", &w, || d.parents_at(obj, h).map(|p| p.count()).ok())?;
            call("iter_at", &w, || d.iter_at(obj, Some(h)).count())?;
            call("get_at(key)", &w, || d.get_at(obj, "a", h).ok())?;
            call("get_all_at(key)", &w, || d.get_all_at(obj, "", h).ok())?;
            call("map_range_at(reversed)", &w, || {
                guard(|| d.map_range_at(obj, "z".to_string().."a".to_string(), h).count()).ok()
            })?;
            call("map_range_at(full)", &w, || d.map_range_at(obj, .., h).count())?;
            #[allow(clippy::reversed_empty_ranges)]
            call("list_range_at(reversed)", &w, || d.list_range_at(obj, 5..2, h).count())?;
            call("list_range_at(huge)", &w, || d.list_range_at(obj, (usize::MAX - 3).., h).count())?;
            call("list_range_at(len..len+1)", &w, || d.list_range_at(obj, len..len + 1, h).count())?;
            for i in idxs(len) {
                let wi = format!("{} index={}", w, if i > len + 1 { "huge".to_string() } else { format!("len{:+}", i as i64 - len as i64) });
                call("get_at(index)", &wi, || d.get_at(obj, i, h).ok())?;
                call("get_all_at(index)", &wi, || d.get_all_at(obj, i, h).ok())?;
                call("get_marks", &wi, || d.get_marks(obj, i, Some(h)).ok())?;
                call("get_cursor", &wi, || d.get_cursor(obj, i, Some(h)).ok())?;
                call("get_cursor_moving(Before)", &wi, || d.get_cursor_moving(obj, i, Some(h), automerge::MoveCursor::Before).ok())?;
                calls += 5;
            }
            for (cname, c) in cursors.iter() {
                call("get_cursor_position", &format!("{} cursor={}", w, cname.split(':').next().unwrap()), || d.get_cursor_position(obj, c, Some(h)).ok())?;
                calls += 1;
            }
            calls += 16;
        }
        let w = format!("obj={} heads=none", oname);
        call("keys", &w, || d.keys(obj).count())?;
        call("text", &w, || d.text(obj).ok())?;
        call("marks", &w, || d.marks(obj).ok())?;
        call("spans", &w, || d.spans(obj).map(|s| s.count()).ok())?;
        call("values", &w, || d.values(obj).count())?;
        call("parents", &w, || d.parents(obj).map(|p| p.count()).ok())?;
        call("object_type", &w, || d.object_type(obj).ok())?;
        call("hash_for_opid", &w, || d.hash_for_opid(obj))?;
        #[allow(clippy::reversed_empty_ranges)]
        call("list_range(reversed)", &w, || d.list_range(obj, 5..2).count())?;
        call("map_range(reversed)", &w, || guard(|| d.map_range(obj, "z".to_string().."a".to_string()).count()).ok())?;
        for i in idxs(len) {
            let wi = format!("{} index={}", w, if i > len + 1 { "huge".to_string() } else { format!("len{:+}", i as i64 - len as i64) });
            call("get(index)", &wi, || d.get(obj, i).ok())?;
            call("get_all(index)", &wi, || d.get_all(obj, i).ok())?;
            call("get_marks", &wi, || d.get_marks(obj, i, None).ok())?;
            call("get_cursor", &wi, || d.get_cursor(obj, i, None).ok())?;
            calls += 4;
        }
        for (cname, c) in cursors.iter() {
            call("get_cursor_position", &format!("{} cursor={}", w, cname.split(':').next().unwrap()), || d.get_cursor_position(obj, c, None).ok())?;
            calls += 1;
        }
        // per-object diff
        for (hn, h) in heads.iter() {
            call("diff_obj", &format!("obj={} heads={}->current", oname, hn), || d.diff_obj(obj, h, &cur, true).ok())?;
            call("diff_obj", &format!("obj={} heads=current->{}", oname, hn), || d.diff_obj(obj, &cur, h, false).ok())?;
            calls += 2;
        }
    }
    // ---- document level --------------------------------------------------------------------
    for (hn, h) in heads.iter() {
        let w = format!("heads={}", hn);
        call("fork_at", &w, || d.fork_at(h).ok())?;
        call("get_changes", &w, || d.get_changes(h).len())?;
        call("get_missing_deps", &w, || d.get_missing_deps(h))?;
        call("save_after", &w, || d.save_after(h).len())?;
        call("hydrate(doc)", &w, || d.hydrate(Some(h)))?;
        call("get_changes_meta", &w, || d.get_changes_meta(h).len())?;
        for (hn2, h2) in heads.iter() {
            call("diff", &format!("{} -> {}", hn, hn2), || d.diff(h, h2).len())?;
            calls += 1;
        }
        call("isolate", &w, || {
            let mut ac = AutoCommit::load(&d.save()).unwrap();
            ac.isolate(h);
            let _ = ac.put(ROOT, "x", 1);
            ac.commit();
            ac.integrate();
        })?;
        call("transaction_at", &w, || {
            let mut x = d.clone();
            let r = x.transaction_at(automerge::PatchLog::inactive(), h);
            if let Ok(mut tx) = r {
                let _ = tx.put(ROOT, "x", 1);
                tx.commit();
            };
        })?;
        calls += 8;
    }
    call("get_change_by_hash(unknown)", "", || d.get_change_by_hash(&ChangeHash([1; 32])))?;
    call("bundle(unknown)", "", || d.bundle([ChangeHash([1; 32])]).is_ok())?;
    for s in ["", "@", "1@", "@ab", "1@zz", "x@10", "99999999999999999999@1077", "1@1077", "_root", "é@é", "1@10777"] {
        call("import_obj", &format!("{:?}", s), || d.import_obj(s).ok())?;
        call("import", &format!("{:?}", s), || d.import(s).ok())?;
        calls += 2;
    }
    // ---- writes (each in its own transaction, rolled back) ---------------------------------
    for (oname, obj) in objs.iter() {
        let len = d.length(obj);
        let mut x = d.clone();
        for i in idxs(len) {
            let wi = format!("obj={} index={}", oname, if i > len + 1 { "huge".to_string() } else { format!("len{:+}", i as i64 - len as i64) });
            macro_rules! w {
                ($name:expr, $f:expr) => {{
                    call($name, &wi, || {
                        let mut tx = x.transaction();
                        #[allow(clippy::redundant_closure_call)]
                        let _ = ($f)(&mut tx);
                        tx.rollback();
                    })?;
                    calls += 1;
                }};
            }
            w!("put(index)", |tx: &mut automerge::transaction::Transaction<'_>| tx.put(obj, i, 1).ok());
            w!("put_object(index)", |tx: &mut automerge::transaction::Transaction<'_>| tx.put_object(obj, i, ObjType::Map).ok());
            w!("insert", |tx: &mut automerge::transaction::Transaction<'_>| tx.insert(obj, i, 1).ok());
            w!("insert_object", |tx: &mut automerge::transaction::Transaction<'_>| tx.insert_object(obj, i, ObjType::Text).ok());
            w!("delete(index)", |tx: &mut automerge::transaction::Transaction<'_>| tx.delete(obj, i).ok());
            w!("increment(index)", |tx: &mut automerge::transaction::Transaction<'_>| tx.increment(obj, i, i64::MAX).ok());
            w!("splice_text(del 0)", |tx: &mut automerge::transaction::Transaction<'_>| tx.splice_text(obj, i, 0, "x").ok());
            w!("splice_text(del isize::MAX)", |tx: &mut automerge::transaction::Transaction<'_>| tx.splice_text(obj, i, isize::MAX, "").ok());
            w!("splice_text(del isize::MIN)", |tx: &mut automerge::transaction::Transaction<'_>| tx.splice_text(obj, i, isize::MIN, "").ok());
            w!("splice_text(del -1)", |tx: &mut automerge::transaction::Transaction<'_>| tx.splice_text(obj, i, -1, "y").ok());
            w!("splice(del 2)", |tx: &mut automerge::transaction::Transaction<'_>| tx.splice(obj, i, 2, vec![automerge::hydrate::Value::scalar(1i64)]).ok());
            w!("split_block", |tx: &mut automerge::transaction::Transaction<'_>| tx.split_block(obj, i).ok());
            w!("join_block", |tx: &mut automerge::transaction::Transaction<'_>| tx.join_block(obj, i).ok());
            w!("replace_block", |tx: &mut automerge::transaction::Transaction<'_>| tx.replace_block(obj, i).ok());
            w!("mark(i..len)", |tx: &mut automerge::transaction::Transaction<'_>| tx.mark(obj, Mark::new("b".into(), true, i, len), ExpandMark::Both).ok());
            w!("mark(0..i)", |tx: &mut automerge::transaction::Transaction<'_>| tx.mark(obj, Mark::new("b".into(), true, 0, i), ExpandMark::None).ok());
            w!("unmark(i..i)", |tx: &mut automerge::transaction::Transaction<'_>| tx.unmark(obj, "b", i, i, ExpandMark::After).ok());
        }
        let wo = format!("obj={}", oname);
        macro_rules! w {
            ($name:expr, $f:expr) => {{
                call($name, &wo, || {
                    let mut tx = x.transaction();
                    #[allow(clippy::redundant_closure_call)]
                    let _ = ($f)(&mut tx);
                    tx.rollback();
                })?;
                calls += 1;
            }};
        }
        w!("put(key)", |tx: &mut automerge::transaction::Transaction<'_>| tx.put(obj, "", ScalarValue::Null).ok());
        w!("delete(key)", |tx: &mut automerge::transaction::Transaction<'_>| tx.delete(obj, "nope").ok());
        w!("increment(key, MAX twice)", |tx: &mut automerge::transaction::Transaction<'_>| {
            let _ = tx.put(obj, "ctr", ScalarValue::counter(i64::MAX - 1));
            let _ = tx.increment(obj, "ctr", i64::MAX);
            let _ = tx.increment(obj, "ctr", i64::MAX);
            tx.get(obj, "ctr").ok().map(|_| ())
        });
        w!("increment(key, MIN)", |tx: &mut automerge::transaction::Transaction<'_>| {
            let _ = tx.put(obj, "ctr", ScalarValue::counter(i64::MIN + 1));
            tx.increment(obj, "ctr", i64::MIN).ok()
        });
        w!("update_text", |tx: &mut automerge::transaction::Transaction<'_>| tx.update_text(obj, "héllo").ok());
        w!("update_object(map)", |tx: &mut automerge::transaction::Transaction<'_>| tx.update_object(obj, &automerge::hydrate::Value::map()).ok());
        w!("update_object(list)", |tx: &mut automerge::transaction::Transaction<'_>| tx.update_object(obj, &automerge::hydrate::Value::list()).ok());
        w!("update_object(scalar)", |tx: &mut automerge::transaction::Transaction<'_>| tx.update_object(obj, &automerge::hydrate::Value::scalar(1i64)).ok());
        w!("batch_create_object(scalar)", |tx: &mut automerge::transaction::Transaction<'_>| tx.batch_create_object(obj, "k", &automerge::hydrate::Value::scalar(1i64), false).ok());
        w!("batch_create_object(insert on key)", |tx: &mut automerge::transaction::Transaction<'_>| tx.batch_create_object(obj, "k", &automerge::hydrate::Value::map(), true).ok());
        w!("update_spans(empty)", |tx: &mut automerge::transaction::Transaction<'_>| tx.update_spans(obj, Default::default(), Vec::<automerge::iter::Span>::new()).ok());
    }
    // ---- the library's own patches are accepted by hydrate::Value::apply_patches --------------
    let sets = g.head_sets_above(&info.base_hashes, 4);
    for h1 in sets.iter() {
        for h2 in sets.iter() {
            let patches = d.diff(h1, h2);
            let mut v = d.hydrate(Some(h1));
            let w = format!("diff({:?} -> {:?})", hstr(h1), hstr(h2));
            let r = guard(|| v.apply_patches(d.text_encoding(), patches.clone()));
            match r {
                Err(p) => return Err(Violation::new("panic", format!("hydrate::apply_patches@{}", p.location), format!("{}: {}", w, p.message))),
                Ok(Err(e)) => {
                    return Err(Violation::new(
                        "own-patches-accepted",
                        format!("{:?}", e).split('(').next().unwrap_or("?").to_string(),
                        format!("{}: apply_patches returned {:?} for patches {}", w, e, super::c08::brief(&patches)),
                    ))
                }
                Ok(Ok(())) => {
                    let want = crate::obs::render_hydrate_plain(&d.hydrate(Some(h2)));
                    let got = crate::obs::render_hydrate_plain(&v);
                    if want != got {
                        return Err(Violation::new("own-patches-accepted", "result", format!("{}: hydrated value after patches {} vs hydrate(target) {}", w, got, want)));
                    }
                }
            }
            calls += 1;
        }
    }
    rep.count("calls", calls);
    Ok(())
}

pub fn run(args: &Args) -> i32 {
    run_pool(
        "C37",
        args,
        "model_checking",
        PoolCfg { quick_scale: 0, thorough_scale: 0, merged: true, budgets: if args.thorough() { None } else { Some((vec![1, 1], 1)) }, ..Default::default() },
        Arc::new(battery),
        "every distinct document reached by the history explorer (replicas and merges) x a bad-argument battery over the public API: object ids of the root, of every reachable object, of objects from another document (unknown actor), of a known actor with a counter never issued, of a scalar; heads that are empty / current / unknown / duplicated / known+unknown / not an antichain / from another document; indexes 0, len-1, len, len+1, usize::MAX-1, usize::MAX; reversed and out-of-range ranges; cursors from another document, from another object of this document, Start/End; every read (*_at and plain), diff / diff_obj / fork_at / get_changes / save_after / isolate / transaction_at with those heads, import strings, every editing call (incl. isize::MIN / isize::MAX deletes, i64::MAX increments on a counter near the limit, reversed and oversized mark ranges, wrong-kind update_object / batch_create_object) each in its own transaction: none may panic; and for all ordered pairs of consistent cuts the patches of diff(H1,H2) must be accepted by hydrate::Value::apply_patches on hydrate(H1) and yield hydrate(H2)",
        &["each call is run under catch_unwind; a panic's file:line is part of the finding signature"],
    )
}
