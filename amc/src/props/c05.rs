//! C05 — changes with missing dependencies are held back until they become ready.

use super::{new_report, run_models, Args};
use crate::deliver::{new_changes, permutations, set_key, RECEIVER_ACTOR};
use crate::explore::Limits;
use crate::obs::{hstr, Obs};
use crate::report::{Report, Violation};
use crate::world::{actor, base, obs_of, History, World};
use automerge::sync::{self, SyncDoc};
use automerge::{Automerge, Change, ChangeHash, ReadDoc, TextEncoding};
use std::collections::{BTreeMap, BTreeSet, HashSet};
use std::sync::{Arc, Mutex};

#[derive(Clone, Copy, Debug)]
enum Path {
    Apply,
    LoadIncremental,
    SyncMessage,
}

fn deliver(d: &mut Automerge, st: &mut sync::State, c: &Change, p: Path) -> Result<(), String> {
    match p {
        Path::Apply => d.apply_changes([c.clone()]).map_err(|e| format!("{:?}", e)),
        Path::LoadIncremental => d.load_incremental(c.raw_bytes()).map(|_| ()).map_err(|e| format!("{:?}", e)),
        Path::SyncMessage => {
            let m = sync::Message {
                heads: vec![],
                need: vec![],
                have: vec![],
                changes: sync::ChunkList::from(vec![c.raw_bytes().to_vec()]),
                flags: None,
                version: sync::MessageVersion::V1,
            };
            let bytes = m.encode();
            let m = sync::Message::decode(&bytes).map_err(|e| format!("decode: {:?}", e))?;
            d.receive_sync_message(st, m).map_err(|e| format!("{:?}", e))
        }
    }
}

/// largest subset of `delivered` that is closed under deps given `base`
fn applied_set(base: &BTreeSet<ChangeHash>, delivered: &[&Change]) -> BTreeSet<ChangeHash> {
    let mut applied = base.clone();
    loop {
        let mut grew = false;
        for c in delivered {
            if !applied.contains(&c.hash()) && c.deps().iter().all(|d| applied.contains(d)) {
                applied.insert(c.hash());
                grew = true;
            }
        }
        if !grew {
            return applied;
        }
    }
}

/// the harness's own computation of get_missing_deps
fn missing(applied: &BTreeSet<ChangeHash>, held: &BTreeMap<ChangeHash, &Change>, given: &[ChangeHash]) -> Vec<String> {
    let mut out = BTreeSet::new();
    let mut stack: Vec<ChangeHash> = held.values().flat_map(|c| c.deps().iter().cloned()).collect();
    stack.extend(given.iter().cloned());
    let mut seen = BTreeSet::new();
    while let Some(h) = stack.pop() {
        if !seen.insert(h) || applied.contains(&h) {
            continue;
        }
        if let Some(c) = held.get(&h) {
            stack.extend(c.deps().iter().cloned());
        } else {
            out.insert(h);
        }
    }
    hstr(&out.into_iter().collect::<Vec<_>>())
}

pub fn check_set(b: &Automerge, base_hashes: &BTreeSet<ChangeHash>, new: &[Change], max_perm: usize, rep: &Report) -> Result<(), Violation> {
    if new.len() > max_perm || new.is_empty() {
        return Ok(());
    }
    let recv = || b.fork().with_actor(actor(RECEIVER_ACTOR));
    // canonical observation per applied set (applied in causal order)
    let mut canon: BTreeMap<Vec<ChangeHash>, Obs> = BTreeMap::new();
    let mut canon_obs = |applied: &BTreeSet<ChangeHash>| -> Result<Obs, Violation> {
        let key: Vec<ChangeHash> = applied.iter().filter(|h| !base_hashes.contains(h)).cloned().collect();
        if let Some(o) = canon.get(&key) {
            return Ok(o.clone());
        }
        let mut d = recv();
        let seq: Vec<Change> = new.iter().filter(|c| applied.contains(&c.hash())).cloned().collect();
        d.apply_changes(seq).map_err(|e| Violation::new("apply-ok", "canonical", format!("{:?}", e)))?;
        let o = obs_of(&d);
        canon.insert(key, o.clone());
        Ok(o)
    };
    let unknown = ChangeHash([0xEE; 32]);
    for path in [Path::Apply, Path::LoadIncremental, Path::SyncMessage] {
        for p in permutations(new.len()) {
            let mut d = recv();
            let mut st = sync::State::new();
            let mut delivered: Vec<&Change> = vec![];
            for &i in p.iter() {
                let c = &new[i];
                deliver(&mut d, &mut st, c, path).map_err(|e| Violation::new("delivery-ok", format!("{:?}", path), format!("perm {:?}: {}", p, e)))?;
                delivered.push(c);
                let applied = applied_set(base_hashes, &delivered);
                let held: BTreeMap<ChangeHash, &Change> = delivered.iter().filter(|c| !applied.contains(&c.hash())).map(|c| (c.hash(), *c)).collect();
                let site = format!("{:?}", path);
                let case = serde_json::json!({"perm": p, "prefix": delivered.len(), "path": site});
                // visible state and heads: exactly the applied set
                let want = canon_obs(&applied)?;
                let got = obs_of(&d);
                if let Some(diff) = got.diff(&want) {
                    return Err(Violation::new("held-back-invisible", site, format!("after delivering {:?} (held {}): {}", &p[..delivered.len()], held.len(), diff)).with_case(case));
                }
                let have: BTreeSet<ChangeHash> = d.get_changes(&[]).iter().map(|c| c.hash()).collect();
                if have != applied {
                    return Err(Violation::new("applied-set", site, format!("document holds {} changes, largest ready subset has {}", have.len(), applied.len())).with_case(case));
                }
                // missing deps
                let m0 = hstr(&d.get_missing_deps(&[]));
                let w0 = missing(&applied, &held, &[]);
                if m0 != w0 {
                    return Err(Violation::new("get_missing_deps", format!("{}:[]", site), format!("got {:?} want {:?}", m0, w0)).with_case(case));
                }
                let mut gs: Vec<ChangeHash> = new.iter().map(|c| c.hash()).collect();
                gs.push(unknown);
                for g in gs {
                    let m = hstr(&d.get_missing_deps(&[g]));
                    let w = missing(&applied, &held, &[g]);
                    if m != w {
                        let kind = if g == unknown { "unknown" } else if applied.contains(&g) { "applied" } else if held.contains_key(&g) { "held" } else { "undelivered" };
                        return Err(Violation::new("get_missing_deps", format!("{}:[{}]", site, kind), format!("heads [{}]: got {:?} want {:?}", g, m, w)).with_case(case));
                    }
                }
                rep.count("prefixes_checked", 1);
            }
            rep.count("evaluations", 1);
        }
    }
    // the same deliveries with ONE local edit of the receiver at every point of every order: held
    // changes (of other actors, whatever their seq) must survive the receiver's own transaction
    for path in [Path::Apply, Path::LoadIncremental] {
        for p in permutations(new.len()) {
            for k in 0..=p.len() {
                let mut d = recv();
                let mut st = sync::State::new();
                let mut delivered: Vec<&Change> = vec![];
                let mut local: Option<ChangeHash> = None;
                for (step, &i) in p.iter().enumerate() {
                    if step == k {
                        local = Some(local_edit(&mut d)?);
                    }
                    let c = &new[i];
                    deliver(&mut d, &mut st, c, path).map_err(|e| Violation::new("delivery-ok", format!("{:?}+local-edit", path), format!("perm {:?} edit at {}: {}", p, k, e)))?;
                    delivered.push(c);
                    let mut applied = applied_set(base_hashes, &delivered);
                    if let Some(l) = local {
                        applied.insert(l);
                    }
                    let have: BTreeSet<ChangeHash> = d.get_changes(&[]).iter().map(|c| c.hash()).collect();
                    if have != applied {
                        let lost: Vec<String> = applied.difference(&have).map(|h| h.to_string()).collect();
                        return Err(Violation::new("applied-set", format!("{:?}+local-edit", path), format!("order {:?}, local edit before delivery {}: after {} deliveries the document holds {} changes, the largest ready subset (+ the local change) has {}; not applied: {:?}", p, k, delivered.len(), have.len(), applied.len(), lost))
                            .with_case(serde_json::json!({"perm": p, "local_edit_at": k, "path": format!("{:?}", path)})));
                    }
                }
                rep.count("evaluations", 1);
                rep.count("orders_with_local_edit", 1);
            }
        }
    }
    Ok(())
}

/// one committed change by the receiver's own actor
fn local_edit(d: &mut Automerge) -> Result<ChangeHash, Violation> {
    use automerge::transaction::Transactable;
    let mut tx = d.transaction();
    tx.put(automerge::ROOT, "receiver-local", 1).map_err(|e| Violation::new("delivery-ok", "local-edit", format!("{:?}", e)))?;
    let (h, _) = tx.commit();
    h.ok_or_else(|| Violation::new("delivery-ok", "local-edit", "the local edit produced no change"))
}

pub fn run(args: &Args) -> i32 {
    let rep = Arc::new(new_report("C05", args, "model_checking"));
    let enc = TextEncoding::UnicodeCodePoint;
    let max_perm = if args.thorough() { 6 } else { 4 };
    let mut models = vec![];
    // DAG shapes come from the history explorer restricted to few ops (content is irrelevant here)
    let cfgs: Vec<(&str, &str, Vec<u8>, u8)> = if args.thorough() {
        vec![("map", "B1", vec![2, 2, 1], 3), ("list", "B1", vec![3, 2], 2), ("text", "B2", vec![2, 2], 2), ("map", "B0", vec![2, 2, 2], 2)]
    } else {
        // B0: deliveries into a document that has no applied change at all (only held ones)
        vec![("map", "B1", vec![2, 1, 1], 2), ("list", "B1", vec![2, 2], 1), ("text", "B2", vec![2, 1], 1), ("map", "B0", vec![2, 1], 1)]
    };
    for (theme, bname, edits, merges) in cfgs {
        let mut h = History::new(theme, bname, enc, &edits, merges);
        // DAG shape matters, not content: keep three ops per theme
        h.ops.truncate(3);
        let b = base(bname, enc);
        let base_hashes: BTreeSet<ChangeHash> = b.get_changes(&[]).iter().map(|c| c.hash()).collect();
        let seen: Mutex<HashSet<String>> = Mutex::new(HashSet::new());
        let rep2 = rep.clone();
        let bname2 = bname.to_string();
        h.state_oracle = Some(Box::new(move |w: &World| {
            let new = new_changes(&base_hashes, &w.docs);
            if !seen.lock().unwrap().insert(set_key(&bname2, &new)) && !crate::util::replaying() {
                return Ok(());
            }
            rep2.count("change_sets", 1);
            check_set(&b, &base_hashes, &new, max_perm, &rep2)
        }));
        models.push((h.label(theme), h));
    }
    let lim = Limits {
        max_wall_s: if args.thorough() { 1700.0 } else { 45.0 },
        ..Default::default()
    };
    let ex = run_models(&rep, args, models, &lim).unwrap_or(false);
    rep.finish(
        "causal DAG shapes come from the history explorer (2-3 actors, merges in the alphabet, so chains, forks and joins occur); for every distinct change set of <=4 (quick) / <=6 (thorough) new changes: every permutation delivered one change at a time through apply_changes, load_incremental(raw bytes) and a sync message carrying exactly that change; after EVERY prefix: reads equal the canonical document of the largest dependency-closed subset, get_changes holds exactly that subset, get_missing_deps([]) and get_missing_deps([g]) for every g in (all hashes + one unknown hash) equal the harness's own closure computation",
        &["'held' = delivered but not dependency-closed; the closure is computed from Change::deps() by the harness"],
        ex,
    )
}
