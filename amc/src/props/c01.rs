//! C01 — convergence: replicas with the same changes show the same document.

use super::{new_report, run_models, Args};
use crate::deliver::{check_deliveries, new_changes, set_key};
use crate::explore::Limits;
use crate::report::{Report, Violation};
use crate::world::{base, obs_of, opcols, History, World};
use automerge::{ChangeHash, TextEncoding};
use std::collections::{BTreeSet, HashSet};
use std::sync::{Arc, Mutex};

pub fn pairwise_merge_oracle(w: &World) -> Result<(), Violation> {
    for i in 0..w.docs.len() {
        for j in (i + 1)..w.docs.len() {
            let mut a = w.docs[i].clone();
            let mut b = w.docs[j].clone();
            a.merge(&mut w.docs[j].clone())
                .map_err(|e| Violation::new("merge-ok", "merge Err", format!("{:?}", e)))?;
            b.merge(&mut w.docs[i].clone())
                .map_err(|e| Violation::new("merge-ok", "merge Err", format!("{:?}", e)))?;
            let (oa, ob) = (obs_of(&a), obs_of(&b));
            if let Some(d) = oa.diff(&ob) {
                return Err(Violation::new(
                    "merge-commutes",
                    "obs",
                    format!("merge({}<-{}) and merge({}<-{}) differ: {}", i, j, j, i, d),
                ));
            }
            let (ca, cb) = (opcols(&a), opcols(&b));
            match (ca, cb) {
                (Ok(x), Ok(y)) if x == y => {}
                (Ok(_), Ok(_)) => {
                    return Err(Violation::new(
                        "merge-commutes",
                        "opcols",
                        format!("merge({}<-{}) and merge({}<-{}) show the same reads but hold different op columns", i, j, j, i),
                    ))
                }
                (Err(m), _) | (_, Err(m)) => return Err(Violation::new("merge-commutes", "opcols-parse", m)),
            }
        }
    }
    Ok(())
}

pub fn run(args: &Args) -> i32 {
    let rep = Arc::new(new_report("C01", args, "model_checking"));
    let enc = TextEncoding::UnicodeCodePoint;
    let max_perm = if args.thorough() { 6 } else { 4 };
    let mut models = vec![];
    for (theme, bname, edits, merges) in super::history_configs(if args.thorough() { 2 } else { 0 }) {
        let mut h = History::new(theme, bname, enc, &edits, merges);
        let b = base(bname, enc);
        let base_hashes: BTreeSet<ChangeHash> = b.get_changes(&[]).iter().map(|c| c.hash()).collect();
        let seen: Mutex<HashSet<String>> = Mutex::new(HashSet::new());
        let rep2: Arc<Report> = rep.clone();
        let bname2 = bname.to_string();
        h.state_oracle = Some(Box::new(move |w: &World| {
            pairwise_merge_oracle(w)?;
            let new = new_changes(&base_hashes, &w.docs);
            let key = set_key(&bname2, &new);
            if !seen.lock().unwrap().insert(key) && !crate::util::replaying() {
                return Ok(());
            }
            let st = check_deliveries(&b, &new, max_perm)?;
            rep2.count("change_sets", 1);
            rep2.count("deliveries", st.deliveries);
            rep2.count("permutations", st.perms);
            rep2.count("evaluations", st.deliveries);
            Ok(())
        }));
        models.push((h.label(theme), h));
    }
    let lim = Limits {
        max_wall_s: if args.thorough() { 1700.0 } else { 50.0 },
        ..Default::default()
    };
    let ex = run_models(&rep, args, models, &lim).unwrap_or(false);
    rep.finish(
        "BFS over worlds of 2-3 real replicas (5 themes x bases B0/B1/B2); in every state: both directions of every pairwise merge agree in reads and op-column bytes; for every distinct change set reached, every permutation delivered one-at-a-time (with redelivery), as one batch (with a duplicate), as every 2-block split, via load_incremental (concatenated and per change), plus merge / load(save) / load(save_nocompress) / load_incremental(save|save_after|bundle) / two-peer sync to quiescence — all must equal the canonical document in reads and op columns; key merges are confluence-checked on reads + op columns",
        &[
            "op columns are cut from save_nocompress() with the harness's own chunk parser",
            "permutations are complete for change sets up to max_perm_len; larger sets get the order-independent paths only",
        ],
        ex,
    )
}
