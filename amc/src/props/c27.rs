//! C27 — reconciliation and bulk-construction calls reach their target value.

use super::{new_report, Args, ENCODINGS};
use crate::obs::{render_hydrate_plain, render_markset};
use crate::report::{Report, Violation};
use crate::util::guard;
use crate::world::{actor, obs_of};
use automerge::hydrate::Value as H;
use automerge::iter::Span;
use automerge::marks::{ExpandMark, Mark, UpdateSpansConfig};
use automerge::transaction::Transactable;
use automerge::{AutoCommit, Automerge, ObjId, ObjType, ReadDoc, ScalarValue, TextEncoding, ROOT};
use rayon::prelude::*;
use std::collections::HashMap;

fn strings(alpha: &[&str], max: usize) -> Vec<String> {
    let mut out = vec![String::new()];
    let mut cur = vec![String::new()];
    for _ in 0..max {
        let mut next = vec![];
        for s in cur.iter() {
            for a in alpha {
                next.push(format!("{}{}", s, a));
            }
        }
        out.extend(next.iter().cloned());
        cur = next;
    }
    out
}

/// three ways of getting a text object showing `s`
fn text_starts(enc: TextEncoding, s: &str) -> Vec<(&'static str, AutoCommit, ObjId)> {
    let mut v = vec![];
    // fresh
    let mut d = AutoCommit::new_with_encoding(enc).with_actor(actor(0x10));
    let t = d.put_object(ROOT, "t", ObjType::Text).unwrap();
    d.splice_text(&t, 0, 0, s).unwrap();
    d.commit();
    v.push(("fresh", d, t));
    // with tombstones around and inside
    let mut d = AutoCommit::new_with_encoding(enc).with_actor(actor(0x10));
    let t = d.put_object(ROOT, "t", ObjType::Text).unwrap();
    d.splice_text(&t, 0, 0, "zz").unwrap();
    d.splice_text(&t, 1, 0, s).unwrap();
    d.commit();
    let len = d.length(&t);
    d.splice_text(&t, len - 1, 1, "").unwrap();
    d.splice_text(&t, 0, 1, "").unwrap();
    d.commit();
    v.push(("tombstones", d, t));
    // with a conflicted element and concurrent inserts
    if !s.is_empty() {
        let mut d = AutoCommit::new_with_encoding(enc).with_actor(actor(0x10));
        let t = d.put_object(ROOT, "t", ObjType::Text).unwrap();
        d.splice_text(&t, 0, 0, s).unwrap();
        d.commit();
        let mut e = d.fork().with_actor(actor(0x90));
        let first: String = match enc {
            TextEncoding::GraphemeCluster => unicode_segmentation::UnicodeSegmentation::graphemes(s, true).next().unwrap().to_string(),
            _ => s.chars().next().unwrap().to_string(),
        };
        d.put(&t, 0, first.as_str()).unwrap();
        d.commit();
        e.put(&t, 0, first.as_str()).unwrap();
        e.commit();
        d.merge(&mut e).unwrap();
        v.push(("conflict", d, t));
    }
    v
}

fn check_update_text(enc: TextEncoding, thorough: bool, rep: &Report) -> Vec<Violation> {
    let alpha = ["a", "b", "é", "😀"];
    let all = strings(&alpha, 3); let _ = thorough;
    let results: Vec<Option<Violation>> = all
        .par_iter()
        .map(|s1| {
            let starts = text_starts(enc, s1);
            for (kind, d0, t) in starts.iter() {
                if d0.text(t).unwrap() != *s1 {
                    return Some(Violation::new("harness-start-state", kind.to_string(), format!("start state shows {:?} instead of {:?}", d0.text(t).unwrap(), s1)));
                }
                for s2 in all.iter() {
                    let mut d = d0.clone();
                    let r = guard(|| d.update_text(t, s2));
                    match r {
                        Err(p) => return Some(Violation::new("panic", p.location, format!("update_text({:?} -> {:?}) [{} {:?}]: {}", s1, s2, kind, enc, p.message))),
                        Ok(Err(e)) => return Some(Violation::new("update_text-ok", kind.to_string(), format!("{:?} -> {:?}: {:?}", s1, s2, e))),
                        Ok(Ok(())) => {}
                    }
                    let got = d.text(t).unwrap_or_default();
                    if got != *s2 {
                        return Some(Violation::new("update_text-reaches-target", format!("{}:{:?}", kind, enc), format!("update_text({:?} -> {:?}) gives {:?}", s1, s2, got)));
                    }
                    d.commit();
                    let got = d.text(t).unwrap_or_default();
                    if got != *s2 {
                        return Some(Violation::new("update_text-reaches-target", format!("{}:{:?}:after-commit", kind, enc), format!("update_text({:?} -> {:?}) gives {:?} after commit", s1, s2, got)));
                    }
                    rep.count("update_text_pairs", 1);
                }
            }
            None
        })
        .collect();
    results.into_iter().flatten().collect()
}

/// values of depth <= 2, width <= 2 over a small scalar menu
fn values(enc: TextEncoding) -> Vec<H> {
    let scalars: Vec<H> = vec![H::scalar(1i64), H::scalar("x"), H::scalar(true), H::scalar(ScalarValue::Null), H::scalar(ScalarValue::counter(3)), H::scalar(1.5f64)];
    let mut level1: Vec<H> = scalars.clone();
    level1.push(H::text(enc, "ab"));
    level1.push(H::text(enc, ""));
    let mk_map = |items: Vec<(&str, H)>| -> H { H::from(items.into_iter().collect::<HashMap<&str, H>>()) };
    let mut containers: Vec<H> = vec![H::map(), H::list()];
    let small: Vec<H> = vec![H::scalar(1i64), H::scalar("x"), H::text(enc, "ab")];
    for a in small.iter() {
        containers.push(mk_map(vec![("a", a.clone())]));
        containers.push(H::from(vec![a.clone()]));
        for b in small.iter().take(2) {
            containers.push(mk_map(vec![("a", a.clone()), ("b", b.clone())]));
            containers.push(H::from(vec![a.clone(), b.clone()]));
        }
    }
    // depth 2
    let mut deep: Vec<H> = vec![];
    for c in containers.iter().take(8) {
        deep.push(mk_map(vec![("a", c.clone())]));
        deep.push(mk_map(vec![("a", c.clone()), ("b", H::scalar("x"))]));
        deep.push(H::from(vec![c.clone()]));
        deep.push(H::from(vec![H::scalar(1i64), c.clone()]));
    }
    deep.push(H::from(vec![H::scalar("a"), H::scalar("b"), H::scalar("c")]));
    deep.push(H::from(vec![H::scalar("x")]));
    let mut all = level1;
    all.extend(containers);
    all.extend(deep);
    all
}

fn kind_of(v: &H) -> &'static str {
    match v {
        H::Map(_) => "map",
        H::List(_) => "list",
        H::Text(_) => "text",
        H::Scalar(_) => "scalar",
    }
}

fn build(enc: TextEncoding, v: &H) -> Result<(AutoCommit, ObjId), String> {
    let mut d = AutoCommit::new_with_encoding(enc).with_actor(actor(0x10));
    let id = d.batch_create_object(ROOT, "v", v, false).map_err(|e| format!("{:?}", e))?;
    d.commit();
    Ok((d, id))
}

/// call-by-call construction of the same value
fn build_by_calls<T: Transactable>(d: &mut T, obj: &ObjId, prop: automerge::Prop, insert: bool, v: &H) -> Result<(), automerge::AutomergeError> {
    match v {
        H::Scalar(s) => match (&prop, insert) {
            (automerge::Prop::Seq(i), true) => d.insert(obj, *i, s.clone()),
            (p, _) => d.put(obj, p.clone(), s.clone()),
        },
        H::Map(m) => {
            let id = match (&prop, insert) {
                (automerge::Prop::Seq(i), true) => d.insert_object(obj, *i, ObjType::Map)?,
                (p, _) => d.put_object(obj, p.clone(), ObjType::Map)?,
            };
            let mut keys: Vec<&String> = m.iter().map(|(k, _)| k).collect();
            keys.sort();
            for k in keys {
                build_by_calls(d, &id, automerge::Prop::Map(k.clone()), false, m.get(k).unwrap())?;
            }
            Ok(())
        }
        H::List(l) => {
            let id = match (&prop, insert) {
                (automerge::Prop::Seq(i), true) => d.insert_object(obj, *i, ObjType::List)?,
                (p, _) => d.put_object(obj, p.clone(), ObjType::List)?,
            };
            for (i, lv) in l.iter().enumerate() {
                build_by_calls(d, &id, automerge::Prop::Seq(i), true, &lv.value)?;
            }
            Ok(())
        }
        H::Text(t) => {
            let id = match (&prop, insert) {
                (automerge::Prop::Seq(i), true) => d.insert_object(obj, *i, ObjType::Text)?,
                (p, _) => d.put_object(obj, p.clone(), ObjType::Text)?,
            };
            d.splice_text(&id, 0, 0, &t.to_string())
        }
    }
}

fn shape(d: &AutoCommit, obj: &ObjId) -> String {
    match d.hydrate(obj, None) {
        Ok(v) => render_hydrate_plain(&v),
        Err(e) => format!("ERR {:?}", e),
    }
}

fn check_objects(enc: TextEncoding, thorough: bool, rep: &Report) -> Vec<Violation> {
    let vals = values(enc);
    let containers: Vec<&H> = vals.iter().filter(|v| !matches!(v, H::Scalar(_))).collect();
    let mut out = vec![];
    // bulk construction == call-by-call construction
    for v in containers.iter() {
        let r = guard(|| -> Result<(), Violation> {
            let want = render_hydrate_plain(v);
            let (mut d, id) = build(enc, v).map_err(|e| Violation::new("batch_create_object-ok", kind_of(v), format!("{} : {}", want, e)))?;
            if shape(&d, &id) != want {
                return Err(Violation::new("batch_create_object-creates-value", kind_of(v), format!("asked for {} got {}", want, shape(&d, &id))));
            }
            // call by call
            let mut c = AutoCommit::new_with_encoding(enc).with_actor(actor(0x10));
            build_by_calls(&mut c, &ROOT, automerge::Prop::Map("v".into()), false, v).map_err(|e| Violation::new("harness-build", "calls", format!("{:?}", e)))?;
            c.commit();
            let (od, oc) = (obs_of(d.document()), obs_of(c.document()));
            // ids may differ (op order inside the change is the implementation's choice): compare shapes
            let (sd, sc) = (render_hydrate_plain(&d.hydrate(ROOT, None).unwrap()), render_hydrate_plain(&c.hydrate(ROOT, None).unwrap()));
            if sd != sc {
                return Err(Violation::new("bulk==call-by-call", kind_of(v), format!("bulk {} vs calls {}", sd, sc)));
            }
            let _ = (od, oc);
            // reload
            let l = AutoCommit::load_with_options(&d.save(), automerge::LoadOptions::new().text_encoding(enc)).map_err(|e| Violation::new("bulk-reload", kind_of(v), format!("{:?}", e)))?;
            if render_hydrate_plain(&l.hydrate(ROOT, None).unwrap()) != sd {
                return Err(Violation::new("bulk-reload", kind_of(v), format!("after reload {} vs {}", render_hydrate_plain(&l.hydrate(ROOT, None).unwrap()), sd)));
            }
            // batch_create_object with insert=true into a list, and splice with nested values
            let mut e = AutoCommit::new_with_encoding(enc).with_actor(actor(0x10));
            let lst = e.put_object(ROOT, "l", ObjType::List).unwrap();
            e.insert(&lst, 0, 0).unwrap();
            let id2 = e.batch_create_object(&lst, 1, v, true).map_err(|er| Violation::new("batch_create_object-ok", format!("{}:insert", kind_of(v)), format!("{:?}", er)))?;
            if shape(&e, &id2) != want {
                return Err(Violation::new("batch_create_object-creates-value", format!("{}:insert", kind_of(v)), format!("asked for {} got {}", want, shape(&e, &id2))));
            }
            e.splice(&lst, 1, 1, vec![(*v).clone(), H::scalar(9i64)]).map_err(|er| Violation::new("splice-nested-ok", kind_of(v), format!("{:?}", er)))?;
            let got = render_hydrate_plain(&e.hydrate(&lst, None).unwrap());
            let wantl = format!("[Int(0),{},Int(9)]", want);
            if got != wantl {
                return Err(Violation::new("splice-nested-creates-value", kind_of(v), format!("want {} got {}", wantl, got)));
            }
            // init_root_from_hydrate / init_from_hydrate for maps
            if let H::Map(m) = v {
                let mut f = AutoCommit::new_with_encoding(enc).with_actor(actor(0x10));
                f.init_root_from_hydrate(m).map_err(|er| Violation::new("init_root_from_hydrate-ok", "map", format!("{:?}", er)))?;
                f.commit();
                if render_hydrate_plain(&f.hydrate(ROOT, None).unwrap()) != want {
                    return Err(Violation::new("init_root_from_hydrate-creates-value", "map", format!("want {} got {}", want, render_hydrate_plain(&f.hydrate(ROOT, None).unwrap()))));
                }
                let mut g = Automerge::new_with_encoding(enc).with_actor(actor(0x10));
                g.init_from_hydrate(m).map_err(|er| Violation::new("init_from_hydrate-ok", "map", format!("{:?}", er)))?;
                if render_hydrate_plain(&g.hydrate(None)) != want {
                    return Err(Violation::new("init_from_hydrate-creates-value", "map", format!("want {} got {}", want, render_hydrate_plain(&g.hydrate(None)))));
                }
            }
            rep.count("bulk_values", 1);
            Ok(())
        });
        match r {
            Err(p) => out.push(Violation::new("panic", p.location, format!("bulk construction of {}: {}", render_hydrate_plain(v), p.message))),
            Ok(Err(v)) => out.push(v),
            Ok(Ok(())) => {}
        }
    }
    // update_object: all ordered pairs of same-kind containers
    let pairs: Vec<(&H, &H)> = containers
        .iter()
        .flat_map(|a| containers.iter().filter(move |b| kind_of(a) == kind_of(b)).map(move |b| (*a, *b)))
        .collect();
    let pairs = if thorough { pairs } else { pairs.into_iter().step_by(1).collect() };
    let res: Vec<Option<Violation>> = pairs
        .par_iter()
        .map(|(a, b)| {
            let r = guard(|| -> Result<(), Violation> {
                let (mut d, id) = build(enc, a).map_err(|e| Violation::new("batch_create_object-ok", kind_of(a), e))?;
                d.update_object(&id, b).map_err(|e| Violation::new("update_object-ok", kind_of(a), format!("{} -> {}: {:?}", render_hydrate_plain(a), render_hydrate_plain(b), e)))?;
                let want = render_hydrate_plain(b);
                let got = shape(&d, &id);
                if got != want {
                    return Err(Violation::new(
                        "update_object-reaches-target",
                        kind_of(a),
                        format!("update_object({} -> {}) gives {}", render_hydrate_plain(a), want, got),
                    ));
                }
                d.commit();
                let l = AutoCommit::load_with_options(&d.save(), automerge::LoadOptions::new().text_encoding(enc)).map_err(|e| Violation::new("update_object-reload", kind_of(a), format!("{:?}", e)))?;
                if shape(&l, &id) != want {
                    return Err(Violation::new("update_object-reload", kind_of(a), format!("after reload {} vs {}", shape(&l, &id), want)));
                }
                rep.count("update_object_pairs", 1);
                Ok(())
            });
            match r {
                Err(p) => Some(Violation::new("panic", p.location, format!("update_object({} -> {}): {}", render_hydrate_plain(a), render_hydrate_plain(b), p.message))),
                Ok(Err(v)) => Some(v),
                Ok(Ok(())) => None,
            }
        })
        .collect();
    out.extend(res.into_iter().flatten());
    out
}

fn norm_spans(d: &AutoCommit, t: &ObjId) -> Vec<String> {
    // adjacent text spans with equal marks merged
    let mut out: Vec<(String, String)> = vec![];
    for s in d.spans(t).unwrap() {
        match s {
            Span::Text { text, marks } => {
                let m = format!("{:?}", marks.map(|m| render_markset(&m)).unwrap_or_default());
                if let Some(last) = out.last_mut() {
                    if last.1 == m && last.1 != "BLOCK" {
                        last.0.push_str(&text);
                        continue;
                    }
                }
                out.push((text, m));
            }
            Span::Block(b) => out.push((render_hydrate_plain(&H::Map(b)), "BLOCK".into())),
        }
    }
    out.into_iter().filter(|(t, m)| !(t.is_empty() && m != "BLOCK")).map(|(t, m)| format!("{}|{}", t, m)).collect()
}

fn check_update_spans(enc: TextEncoding, rep: &Report) -> Vec<Violation> {
    use std::sync::Arc;
    let bold = {
        // a mark set {bold: true} obtained from a real document
        let mut d = AutoCommit::new_with_encoding(enc);
        let t = d.put_object(ROOT, "t", ObjType::Text).unwrap();
        d.splice_text(&t, 0, 0, "x").unwrap();
        d.mark(&t, Mark::new("bold".into(), true, 0, 1), ExpandMark::None).unwrap();
        Arc::new(d.get_marks(&t, 0, None).unwrap())
    };
    let block = || {
        let mut m: HashMap<&str, H> = HashMap::new();
        m.insert("type", H::scalar("p"));
        match H::from(m) {
            H::Map(m) => m,
            _ => unreachable!(),
        }
    };
    let atoms: Vec<(&str, Span)> = vec![
        ("ab", Span::Text { text: "ab".into(), marks: None }),
        ("é", Span::Text { text: "é".into(), marks: None }),
        ("B:cd", Span::Text { text: "cd".into(), marks: Some(bold.clone()) }),
        ("blk", Span::Block(block())),
    ];
    // all span lists of length <= 3
    let mut lists: Vec<Vec<usize>> = vec![vec![]];
    let mut cur: Vec<Vec<usize>> = vec![vec![]];
    for _ in 0..3 {
        let mut next = vec![];
        for l in cur.iter() {
            for a in 0..atoms.len() {
                let mut n = l.clone();
                n.push(a);
                next.push(n);
            }
        }
        lists.extend(next.iter().cloned());
        cur = next;
    }
    let mut out = vec![];
    let mk = |l: &Vec<usize>| -> Vec<Span> { l.iter().map(|&i| atoms[i].1.clone()).collect() };
    let name = |l: &Vec<usize>| -> String { l.iter().map(|&i| atoms[i].0).collect::<Vec<_>>().join(",") };
    let res: Vec<Option<Violation>> = lists
        .par_iter()
        .map(|from| {
            for to in lists.iter() {
                let r = guard(|| -> Result<(), Violation> {
                    let mut d = AutoCommit::new_with_encoding(enc).with_actor(actor(0x10));
                    let t = d.put_object(ROOT, "t", ObjType::Text).unwrap();
                    d.update_spans(&t, UpdateSpansConfig::default().with_default_expand(ExpandMark::None), mk(from))
                        .map_err(|e| Violation::new("update_spans-ok", "initial", format!("[{}]: {:?}", name(from), e)))?;
                    d.commit();
                    d.update_spans(&t, UpdateSpansConfig::default().with_default_expand(ExpandMark::None), mk(to))
                        .map_err(|e| Violation::new("update_spans-ok", "update", format!("[{}] -> [{}]: {:?}", name(from), name(to), e)))?;
                    // expected: the same spans built directly in a fresh document
                    let mut w = AutoCommit::new_with_encoding(enc).with_actor(actor(0x11));
                    let tw = w.put_object(ROOT, "t", ObjType::Text).unwrap();
                    let mut at = 0;
                    for s in mk(to) {
                        match s {
                            Span::Text { text, marks } => {
                                w.splice_text(&tw, at, 0, &text).unwrap();
                                let wd = crate::refmodel::width(enc, &text);
                                if let Some(m) = marks {
                                    for (k, v) in m.iter() {
                                        w.mark(&tw, Mark::new(k.to_string(), v.clone(), at, at + wd), ExpandMark::None).unwrap();
                                    }
                                }
                                at += wd;
                            }
                            Span::Block(b) => {
                                let id = w.split_block(&tw, at).unwrap();
                                w.update_object(&id, &H::Map(b)).unwrap();
                                at += crate::refmodel::width(enc, "\u{fffc}");
                            }
                        }
                    }
                    let (got, want) = (norm_spans(&d, &t), norm_spans(&w, &tw));
                    if got != want {
                        return Err(Violation::new("update_spans-reaches-target", format!("{:?}", enc), format!("update_spans([{}] -> [{}]) gives {:?}, target is {:?}", name(from), name(to), got, want)));
                    }
                    rep.count("update_spans_pairs", 1);
                    Ok(())
                });
                match r {
                    Err(p) => return Some(Violation::new("panic", p.location, format!("update_spans([{}] -> [{}]): {}", name(from), name(to), p.message))),
                    Ok(Err(v)) => return Some(v),
                    Ok(Ok(())) => {}
                }
            }
            None
        })
        .collect();
    out.extend(res.into_iter().flatten());
    out
}

pub fn run(args: &Args) -> i32 {
    let rep = new_report("C27", args, "model_checking");
    let encs: Vec<TextEncoding> = if args.thorough() { ENCODINGS.to_vec() } else { vec![TextEncoding::UnicodeCodePoint, TextEncoding::Utf16CodeUnit] };
    for enc in encs.iter().cloned() {
        for v in check_update_text(enc, args.thorough(), &rep) {
            rep.violation(v);
        }
    }
    for enc in [TextEncoding::UnicodeCodePoint] {
        for v in check_objects(enc, args.thorough(), &rep) {
            rep.violation(v);
        }
        for v in check_update_spans(enc, &rep) {
            rep.violation(v);
        }
    }
    let total = rep.get_count("update_text_pairs") + rep.get_count("update_object_pairs") + rep.get_count("update_spans_pairs") + rep.get_count("bulk_values");
    rep.count("evaluations", total);
    rep.count("states", total);
    rep.count("transitions", total);
    rep.count("distinct_nontrivial", total);
    rep.sample(serde_json::json!({"update_text": ["aé", "😀b"], "start": "tombstones"}));
    rep.finish(
        "exhaustive enumeration of targets: update_text over ALL ordered pairs of strings of length <=3 (85x85 pairs) over {a, b, é, 😀} x start states {fresh, tombstones around and inside, a conflicted first element} x encodings, text()==target before and after commit; batch_create_object / init_root_from_hydrate / init_from_hydrate / splice with nested values for every value of depth <=2 and width <=2 over {int, string, bool, null, counter, float, text}: created value equals the target, equals call-by-call construction, survives reload; update_object over ALL ordered pairs of same-kind containers from that value set: hydrate equals the target (conflict markers ignored) before and after reload; update_spans over ALL ordered pairs of span lists of length <=3 over {plain text, accented text, bold text, block}: spans equal the target once adjacent equal-mark text spans are merged (target built independently with splice_text/mark/split_block)",
        &["states/transitions count enumerated (start,target) pairs: each is one execution of the real call"],
        true,
    )
}
