//! C18 — change and bundle encodings round-trip.

use super::docpool::{run_pool, DocInfo, PoolCfg};
use super::Args;
use crate::report::{Report, Violation};
use crate::world::{actor, obs_of};
use automerge::legacy as L;
use automerge::{ActorId, Automerge, Bundle, Change, ChangeHash, ExpandedChange, ObjType, ReadDoc, ScalarValue};
use std::collections::BTreeMap;
use std::num::NonZeroU64;
use std::sync::Arc;

fn change_roundtrip(c: &Change, how: &str) -> Result<(), Violation> {
    let raw = c.raw_bytes().to_vec();
    let c2 = Change::from_bytes(raw.clone()).map_err(|e| Violation::new("from_bytes(raw)", how.to_string(), format!("{:?}", e)))?;
    if c2.hash() != c.hash() || c2.raw_bytes() != &raw[..] || &c2 != c {
        return Err(Violation::new("from_bytes(raw)", how.to_string(), format!("change {} differs after from_bytes(raw_bytes)", c.hash())));
    }
    let mut cm = c.clone();
    let comp = cm.bytes().to_vec();
    let c3 = Change::from_bytes(comp.clone()).map_err(|e| Violation::new("from_bytes(bytes)", how.to_string(), format!("{:?}", e)))?;
    if c3.hash() != c.hash() || c3.raw_bytes() != &raw[..] {
        return Err(Violation::new(
            "from_bytes(bytes)",
            how.to_string(),
            format!("change {} differs after from_bytes(bytes()) (compressed form is {} bytes, raw {})", c.hash(), comp.len(), raw.len()),
        ));
    }
    let ex = c.decode();
    if ex.hash != Some(c.hash()) {
        return Err(Violation::new("decode-hash", how.to_string(), format!("{:?} vs {}", ex.hash, c.hash())));
    }
    let back = Change::from(ex.clone());
    if back.hash() != c.hash() || back.raw_bytes() != &raw[..] {
        return Err(Violation::new(
            "encode(decode)",
            how.to_string(),
            format!("change {}: re-encoding the expanded change gives hash {}", c.hash(), back.hash()),
        ));
    }
    let ex2 = back.decode();
    if ex2 != ex {
        return Err(Violation::new("decode(encode(decode))", how.to_string(), format!("change {}", c.hash())));
    }
    Ok(())
}

fn bundle_checks(d: &Automerge, info: &DocInfo, rep: &Report) -> Result<(), Violation> {
    let all = d.get_changes(&[]);
    let new: Vec<&Change> = all.iter().filter(|c| !info.base_hashes.contains(&c.hash())).collect();
    // every non-empty subset of the new changes (<= 5 of them), and the whole history
    let n = new.len().min(5);
    let mut subsets: Vec<Vec<ChangeHash>> = vec![];
    for mask in 1u32..(1 << n) {
        subsets.push((0..n).filter(|i| mask & (1 << i) != 0).map(|i| new[i].hash()).collect());
    }
    subsets.push(all.iter().map(|c| c.hash()).collect());
    let by_hash: BTreeMap<ChangeHash, &Change> = all.iter().map(|c| (c.hash(), c)).collect();
    for sub in subsets {
        let b = d
            .bundle(sub.iter().cloned())
            .map_err(|e| Violation::new("bundle-ok", "bundle", format!("{:?} for {:?}", e, sub)))?;
        let bytes = b.bytes().to_vec();
        let back = b.to_changes().map_err(|e| Violation::new("bundle-ok", "to_changes", format!("{:?}", e)))?;
        if back.len() != sub.len() {
            return Err(Violation::new("bundle-changes", "count", format!("{} changes in, {} out", sub.len(), back.len())));
        }
        for c in back.iter() {
            match by_hash.get(&c.hash()) {
                Some(o) if o.raw_bytes() == c.raw_bytes() => {}
                _ => return Err(Violation::new("bundle-changes", "bytes", format!("bundle returned change {} which is not byte-identical to an input", c.hash()))),
            }
        }
        // parse the bytes again
        let b2 = Bundle::try_from(&bytes[..]).map_err(|e| Violation::new("bundle-ok", "parse", format!("{:?}", e)))?;
        let back2 = b2.to_changes().map_err(|e| Violation::new("bundle-ok", "to_changes(parsed)", format!("{:?}", e)))?;
        let mut h1: Vec<ChangeHash> = back.iter().map(|c| c.hash()).collect();
        let mut h2: Vec<ChangeHash> = back2.iter().map(|c| c.hash()).collect();
        h1.sort();
        h2.sort();
        if h1 != h2 {
            return Err(Violation::new("bundle-changes", "reparse", "parsed bundle yields different changes"));
        }
        // loading the bundle == applying the changes
        let mut x = Automerge::new_with_encoding(info.enc).with_actor(actor(0x33));
        let mut y = Automerge::new_with_encoding(info.enc).with_actor(actor(0x33));
        let rx = x.load_incremental(&bytes);
        let ry = y.apply_changes(back.clone());
        match (rx, ry) {
            (Ok(_), Ok(())) => {
                if let Some(diff) = obs_of(&x).diff(&obs_of(&y)) {
                    return Err(Violation::new("bundle-load==apply", "obs", diff));
                }
                if crate::obs::hstr(&x.get_missing_deps(&[])) != crate::obs::hstr(&y.get_missing_deps(&[])) {
                    return Err(Violation::new("bundle-load==apply", "queue", "missing deps differ"));
                }
            }
            (a, b) => {
                return Err(Violation::new("bundle-load==apply", "result", format!("load_incremental: {:?}, apply_changes: {:?}", a.map(|_| ()), b)));
            }
        }
        rep.count("bundles", 1);
    }
    Ok(())
}

/// hand-built expanded changes within the documented value ranges
fn handbuilt(rep: &Report) -> Result<(), Violation> {
    let a = ActorId::from(vec![0x11u8, 0x22]);
    let other = ActorId::from(vec![0x05u8]);
    let scalars: Vec<ScalarValue> = vec![
        ScalarValue::Null,
        ScalarValue::Boolean(true),
        ScalarValue::Boolean(false),
        ScalarValue::Int(0),
        ScalarValue::Int(i64::MIN),
        ScalarValue::Int(i64::MAX),
        ScalarValue::Uint(0),
        ScalarValue::Uint(u64::MAX),
        ScalarValue::F64(0.0),
        ScalarValue::F64(-1.5e300),
        ScalarValue::F64(f64::MIN_POSITIVE),
        ScalarValue::Str("".into()),
        ScalarValue::Str("é😀".into()),
        ScalarValue::Bytes(vec![]),
        ScalarValue::Bytes(vec![0, 255, 128]),
        ScalarValue::counter(i64::MIN),
        ScalarValue::counter(i64::MAX),
        ScalarValue::Timestamp(i64::MIN),
        ScalarValue::Timestamp(i64::MAX),
    ];
    let mut actions: Vec<L::OpType> = vec![
        L::OpType::Make(ObjType::Map),
        L::OpType::Make(ObjType::List),
        L::OpType::Make(ObjType::Text),
        L::OpType::Make(ObjType::Table),
        L::OpType::Delete,
        L::OpType::Increment(i64::MIN),
        L::OpType::Increment(i64::MAX),
        L::OpType::Increment(0),
        L::OpType::MarkEnd(true),
        L::OpType::MarkEnd(false),
    ];
    for s in scalars.iter() {
        actions.push(L::OpType::Put(s.clone()));
        actions.push(L::OpType::MarkBegin(L::MarkData { name: "bold".into(), value: s.clone(), expand: true }));
    }
    actions.push(L::OpType::MarkBegin(L::MarkData { name: "".into(), value: ScalarValue::Null, expand: false }));
    let objs = vec![L::ObjectId::Root, L::ObjectId::Id(L::OpId::new(3, &other)), L::ObjectId::Id(L::OpId::new(u32::MAX as u64, &a))];
    let keys = vec![
        (L::Key::Map("".into()), false),
        (L::Key::Map("ké".into()), false),
        (L::Key::Seq(L::ElementId::Head), true),
        (L::Key::Seq(L::ElementId::Id(L::OpId::new(2, &other))), true),
        (L::Key::Seq(L::ElementId::Id(L::OpId::new(2, &a))), false),
    ];
    let preds: Vec<Vec<L::OpId>> = vec![vec![], vec![L::OpId::new(1, &other)], vec![L::OpId::new(1, &a), L::OpId::new(2, &other)]];
    let messages = [None, Some("".to_string()), Some("m é😀".to_string())];
    let extras: [Vec<u8>; 2] = [vec![], vec![1, 2, 3]];
    let dep = |b: u8| ChangeHash([b; 32]);
    let depss = [vec![], vec![dep(1)], vec![dep(1), dep(9)]];
    let times = [0i64, i64::MIN, i64::MAX];
    let mut n = 0u64;
    for act in actions.iter() {
        for obj in objs.iter() {
            for (key, insert) in keys.iter() {
                for pred in preds.iter() {
                    // vary the metadata with the op index so the product stays small
                    let k = n as usize;
                    let mut ps: Vec<L::OpId> = pred.clone();
                    ps.sort_by(|x, y| x.0.cmp(&y.0).then(x.1.cmp(&y.1)));
                    let op = L::Op {
                        action: act.clone(),
                        obj: obj.clone(),
                        key: key.clone(),
                        pred: ps.into_iter().collect(),
                        insert: *insert,
                    };
                    let ex = ExpandedChange {
                        operations: vec![op.clone(), op],
                        actor_id: a.clone(),
                        hash: None,
                        seq: 1 + (k as u64 % 3),
                        start_op: NonZeroU64::new(1 + (k as u64 % 5) * 1000).unwrap(),
                        time: times[k % 3],
                        message: messages[(k / 3) % 3].clone(),
                        deps: depss[(k / 9) % 3].clone(),
                        extra_bytes: extras[(k / 27) % 2].clone(),
                    };
                    let r = crate::util::guard(|| {
                        let c = Change::from(ex.clone());
                        let back = c.decode();
                        let c2 = Change::from_bytes(c.raw_bytes().to_vec());
                        (c, back, c2)
                    });
                    match r {
                        Err(p) => {
                            return Err(Violation::new("handbuilt-encode", p.location, format!("{} for {:?}", p.message, ex)));
                        }
                        Ok((c, back, c2)) => {
                            if back != ex {
                                return Err(Violation::new("handbuilt-roundtrip", format!("{:?}", std::mem::discriminant(act)), format!("encoded {:?}\n decoded {:?}", ex, back)));
                            }
                            match c2 {
                                Ok(c2) if c2.hash() == c.hash() => {}
                                Ok(c2) => return Err(Violation::new("handbuilt-from_bytes", "hash", format!("{} vs {}", c2.hash(), c.hash()))),
                                Err(e) => return Err(Violation::new("handbuilt-from_bytes", "Err", format!("{:?} for {:?}", e, ex))),
                            }
                            change_roundtrip(&c, "handbuilt")?;
                        }
                    }
                    n += 1;
                }
            }
        }
    }
    rep.count("handbuilt_changes", n);
    rep.count("evaluations", n);
    Ok(())
}

/// Histories whose *change metadata* (messages, actors, deps, times, extra bytes) is large enough
/// for the bundle writer to DEFLATE those columns too (the explorer's histories only ever push the
/// op columns of B3 over the threshold).
fn big_metadata_bundles(rep: &Report) -> Result<(), Violation> {
    use automerge::transaction::{CommitOptions, Transactable};
    use automerge::ROOT;
    let mk = |n: usize, actors: usize, msg_len: usize| -> Automerge {
        let mut docs: Vec<Automerge> = (0..actors).map(|a| Automerge::new().with_actor(ActorId::from(vec![0x10 + a as u8, 0xaa]))).collect();
        for i in 0..n {
            let a = i % actors;
            if i % 5 == 4 && actors > 1 {
                let mut other = docs[(a + 1) % actors].clone();
                let _ = docs[a].merge(&mut other);
            }
            let mut tx = docs[a].transaction();
            tx.put(ROOT, format!("k{}", i % 7), i as i64).unwrap();
            let msg: String = (0..msg_len).map(|j| char::from(b'a' + ((i * 7 + j) % 26) as u8)).collect();
            tx.commit_with(CommitOptions::default().with_message(msg).with_time((i as i64 * 977) % 100_000 - 50_000));
        }
        let mut d = docs[0].clone();
        for o in docs.iter().skip(1) {
            let _ = d.merge(&mut o.clone());
        }
        d
    };
    for (n, actors, msg_len) in [(40usize, 1usize, 30usize), (60, 3, 12), (300, 3, 0), (12, 2, 300)] {
        let d = mk(n, actors, msg_len);
        let info = DocInfo { enc: d.text_encoding(), base_hashes: Default::default(), theme: "big-metadata".into(), kind: "replica", big: true };
        bundle_checks(&d, &info, rep).map_err(|mut v| {
            v.site = format!("{}:big-metadata", v.site);
            v.case = serde_json::json!({"explorer": "big_metadata_bundles", "changes": n, "actors": actors, "message_len": msg_len});
            v
        })?;
        rep.count("big_metadata_histories", 1);
    }
    Ok(())
}

pub fn run(args: &Args) -> i32 {
    let oracle = move |d: &Automerge, info: &DocInfo, rep: &Report| -> Result<(), Violation> {
        for c in d.get_changes(&[]).iter() {
            change_roundtrip(c, info.kind)?;
            rep.count("changes_roundtripped", 1);
        }
        bundle_checks(d, info, rep)
    };
    let pre = std::sync::Once::new();
    let oracle2 = move |d: &Automerge, info: &DocInfo, rep: &Report| -> Result<(), Violation> {
        let mut r = Ok(());
        let mut once = || {
            r = handbuilt(rep).and_then(|_| crate::util::guard(|| big_metadata_bundles(rep)).unwrap_or_else(|p| Err(Violation::new("panic", p.location, format!("big-metadata bundles: {}", p.message)))));
        };
        if crate::util::replaying() {
            // a replay re-runs the document-independent part too (it is deterministic)
            once();
        } else {
            pre.call_once(once);
        }
        r?;
        oracle(d, info, rep)
    };
    run_pool(
        "C18",
        args,
        "model_checking",
        PoolCfg {
            quick_scale: 1,
            thorough_scale: 2,
            extra_bases: vec!["B3"],
            quick_wall: 55.0,
            ..Default::default()
        },
        Arc::new(oracle2),
        "every change of every distinct document reached by the history explorer (incl. B3 whose first change is DEFLATE-compressed): from_bytes(raw_bytes) and from_bytes(bytes()) give an equal change with the same hash, Change::from(decode()) re-encodes to byte-identical raw bytes, decode is stable; every non-empty subset of the new changes (<=5) and the whole history bundled: to_changes returns byte-identical changes, the bundle bytes re-parse, load_incremental(bundle) into an empty document equals apply_changes (reads and missing deps); plus four histories of 12-300 changes whose change-metadata columns (messages, times, deps, actors) exceed the DEFLATE threshold of the bundle writer, with the same bundle checks; plus ~3.6k hand-built expanded changes: every action x scalar extremes x object/key/pred shapes x message/extra_bytes/deps/time variants must encode, decode back equal and reload",
        &["hand-built changes stay within documented ranges (op counters <= u32::MAX, sorted preds)"],
    )
}
