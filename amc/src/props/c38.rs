//! C38 — actor sequence numbers stay unique (and C06's "failed apply leaves the document unchanged"
//! on the same worlds).

use super::{new_report, run_models, Args};
use crate::chunks::{split_chunks, T_CHANGE, T_COMPRESSED};
use crate::explore::{Limits, Model, Step};
use crate::graph::Graph;
use crate::obs::hstr;
use crate::report::Violation;
use crate::world::{actor, obs_of};
use automerge::sync::{self, SyncDoc};
use automerge::transaction::Transactable;
use automerge::{Automerge, Change, ChangeHash, ReadDoc, SaveOptions, ROOT};
use sha2::{Digest, Sha256};
use std::collections::{BTreeMap, BTreeSet};

#[derive(Clone)]
pub struct W {
    docs: Vec<Automerge>,
    /// every change ever created, in creation order
    universe: Vec<Change>,
    left: u8,
    edit_no: u8,
}

#[derive(Clone, Copy, Debug, PartialEq)]
pub enum Via {
    Apply,
    LoadIncremental,
    Sync,
}

#[derive(Clone, Debug)]
pub enum Act {
    Edit(usize),
    Deliver(usize, usize, Via),
    /// deliver two changes in one batch (second first)
    DeliverBatch(usize, usize, usize),
    SaveLoad(usize),
    Merge(usize, usize),
}

pub struct M {
    pub depth: u8,
    /// C06 mode: report "Err changed the document" violations under this property's name
    pub check_err_unchanged: bool,
}

fn orphans(d: &Automerge) -> Vec<Change> {
    let bytes = d.save_with_options(SaveOptions { deflate: false, retain_orphans: true });
    let (chunks, _) = split_chunks(&bytes);
    chunks
        .iter()
        .filter(|c| c.typ == T_CHANGE || c.typ == T_COMPRESSED)
        .filter_map(|c| Change::from_bytes(bytes[c.start..c.end].to_vec()).ok())
        .collect()
}

fn full_state(d: &Automerge) -> (crate::obs::Obs, Vec<u8>, Vec<String>) {
    (
        obs_of(d),
        d.save_with_options(SaveOptions { deflate: false, retain_orphans: true }),
        hstr(&d.get_missing_deps(&[])),
    )
}

impl Model for M {
    type S = W;
    type A = Act;

    fn inits(&self) -> Vec<(String, W)> {
        let mut b = Automerge::new().with_actor(actor(0x50));
        let mut tx = b.transaction();
        tx.put(ROOT, "base", 1).unwrap();
        tx.commit();
        let universe = b.get_changes(&[]);
        // replicas 0 and 1 share an actor id (a clone / a stale reload); replica 2 is an observer
        let d0 = b.fork().with_actor(actor(0x10));
        let d1 = b.fork().with_actor(actor(0x10));
        let d2 = b.fork().with_actor(actor(0x90));
        vec![(
            "clone-shares-actor".into(),
            W {
                docs: vec![d0, d1, d2],
                universe,
                left: self.depth,
                edit_no: 0,
            },
        )]
    }

    fn actions(&self, s: &W) -> Vec<Act> {
        if s.left == 0 {
            return vec![];
        }
        let mut v = vec![];
        for r in 0..s.docs.len() {
            v.push(Act::Edit(r));
        }
        for r in 0..s.docs.len() {
            let have: BTreeSet<ChangeHash> = s.docs[r].get_changes(&[]).iter().map(|c| c.hash()).collect();
            let cands: Vec<usize> = (0..s.universe.len()).filter(|&i| !have.contains(&s.universe[i].hash())).collect();
            for &ci in cands.iter() {
                for via in [Via::Apply, Via::LoadIncremental, Via::Sync] {
                    v.push(Act::Deliver(ci, r, via));
                }
            }
            for &a in cands.iter() {
                for &b in cands.iter() {
                    if a < b {
                        v.push(Act::DeliverBatch(b, a, r));
                    }
                }
            }
        }
        for r in 0..s.docs.len() {
            v.push(Act::SaveLoad(r));
        }
        for r in 0..s.docs.len() {
            for q in 0..s.docs.len() {
                if r != q {
                    v.push(Act::Merge(r, q));
                }
            }
        }
        v
    }

    fn step(&self, s: &W, a: &Act) -> Step<W> {
        let mut n = s.clone();
        n.left -= 1;
        match a {
            Act::Edit(r) => {
                n.edit_no += 1;
                let mut tx = n.docs[*r].transaction();
                if tx.put(ROOT, "k", n.edit_no as i64 * 10 + *r as i64).is_err() {
                    tx.rollback();
                    return Step::Disabled;
                }
                let (h, _) = tx.commit();
                match h {
                    Some(_) => {
                        let c = n.docs[*r].get_last_local_change().unwrap();
                        n.universe.push(c);
                    }
                    None => return Step::Disabled,
                }
            }
            Act::Deliver(ci, r, via) => {
                let c = s.universe[*ci].clone();
                let before = full_state(&s.docs[*r]);
                let res: Result<(), String> = match via {
                    Via::Apply => n.docs[*r].apply_changes([c.clone()]).map_err(|e| format!("{:?}", e)),
                    Via::LoadIncremental => n.docs[*r].load_incremental(c.raw_bytes()).map(|_| ()).map_err(|e| format!("{:?}", e)),
                    Via::Sync => {
                        let m = sync::Message {
                            heads: vec![],
                            need: vec![],
                            have: vec![],
                            changes: sync::ChunkList::from(vec![c.raw_bytes().to_vec()]),
                            flags: None,
                            version: sync::MessageVersion::V1,
                        };
                        let mut st = sync::State::new();
                        n.docs[*r].receive_sync_message(&mut st, m).map_err(|e| format!("{:?}", e))
                    }
                };
                if let (Err(e), true) = (res, self.check_err_unchanged) {
                    let after = full_state(&n.docs[*r]);
                    if after != before {
                        let what = if after.0 != before.0 { "reads" } else { "queue" };
                        return Step::Fail(Violation::new(
                            "err-leaves-unchanged",
                            format!("{:?}:{}", via, what),
                            format!("delivery of {} (actor {} seq {}) returned Err({}) but the document's {} changed", c.hash(), c.actor_id(), c.seq(), e, what),
                        ));
                    }
                }
            }
            Act::DeliverBatch(a_, b_, r) => {
                let batch = vec![s.universe[*a_].clone(), s.universe[*b_].clone()];
                let before = full_state(&s.docs[*r]);
                if let (Err(e), true) = (n.docs[*r].apply_changes(batch), self.check_err_unchanged) {
                    let after = full_state(&n.docs[*r]);
                    if after != before {
                        let what = if after.0 != before.0 { "reads" } else { "queue" };
                        return Step::Fail(Violation::new(
                            "err-leaves-unchanged",
                            format!("batch:{}", what),
                            format!("apply_changes of a 2-change batch returned Err({:?}) but the document's {} changed", e, what),
                        ));
                    }
                }
            }
            Act::Merge(r, q) => {
                let before = full_state(&s.docs[*r]);
                let mut other = s.docs[*q].clone();
                let res = n.docs[*r].merge(&mut other);
                match res {
                    Ok(_) => {
                        if full_state(&n.docs[*r]) == before {
                            return Step::Disabled;
                        }
                    }
                    Err(e) => {
                        if self.check_err_unchanged {
                            let after = full_state(&n.docs[*r]);
                            if after != before {
                                let what = if after.0 != before.0 { "reads" } else { "queue" };
                                return Step::Fail(Violation::new(
                                    "err-leaves-unchanged",
                                    format!("merge:{}", what),
                                    format!("merge returned Err({:?}) but the document's {} changed", e, what),
                                ));
                            }
                        }
                    }
                }
            }
            Act::SaveLoad(r) => {
                let a = n.docs[*r].get_actor().clone();
                match Automerge::load(&n.docs[*r].save()) {
                    Ok(d) => n.docs[*r] = d.with_actor(a),
                    Err(e) => return Step::Fail(Violation::new("load(save)-ok", "Err", format!("{:?}", e))),
                }
            }
        }
        Step::Next(n)
    }

    fn key(&self, s: &W) -> [u8; 32] {
        let mut h = Sha256::new();
        for d in s.docs.iter() {
            for x in hstr(&d.get_heads()) {
                h.update(x.as_bytes());
            }
            h.update(b"/");
            let mut q: Vec<String> = orphans(d).iter().map(|c| c.hash().to_string()).collect();
            q.sort();
            for x in q {
                h.update(x.as_bytes());
            }
            h.update(b"|");
        }
        let mut u: Vec<String> = s.universe.iter().map(|c| c.hash().to_string()).collect();
        u.sort();
        for x in u {
            h.update(x.as_bytes());
        }
        h.update([s.left]);
        let mut r = [0u8; 32];
        r.copy_from_slice(&h.finalize());
        r
    }

    fn check_state(&self, s: &W) -> Result<(), Violation> {
        for d in s.docs.iter() {
            let cs = d.get_changes(&[]);
            let mut seen: BTreeMap<(Vec<u8>, u64), ChangeHash> = BTreeMap::new();
            for c in cs.iter() {
                if let Some(o) = seen.insert((c.actor_id().to_bytes().to_vec(), c.seq()), c.hash()) {
                    return Err(Violation::new(
                        "actor-seq-unique",
                        "applied",
                        format!("document holds {} and {} both with actor {} seq {}", o, c.hash(), c.actor_id(), c.seq()),
                    ));
                }
            }
            // save / load round trip
            let l = Automerge::load(&d.save()).map_err(|e| Violation::new("load(save)-ok", "Err", format!("{:?}", e)))?;
            if let Some(diff) = obs_of(&l).diff(&obs_of(d)) {
                return Err(Violation::new("load(save)-equal", "obs", diff));
            }
            if hstr(&l.get_missing_deps(&[])) != hstr(&d.get_missing_deps(&[])) {
                return Err(Violation::new("load(save)-equal", "queue", "missing deps differ after reload"));
            }
            // queued changes never conflict with applied ones of the same actor at >= its next seq
            let q = orphans(d);
            let g = Graph::new(q.clone());
            let mine_next = cs.iter().filter(|c| c.actor_id() == d.get_actor()).map(|c| c.seq()).max().unwrap_or(0) + 1;
            for c in q.iter() {
                if let Some(o) = seen.get(&(c.actor_id().to_bytes().to_vec(), c.seq())) {
                    if *o != c.hash() {
                        return Err(Violation::new(
                            "actor-seq-unique",
                            "queued-vs-applied",
                            format!("queue holds {} with actor {} seq {} which an applied change {} already claims", c.hash(), c.actor_id(), c.seq(), o),
                        ));
                    }
                }
                let _ = (&g, mine_next);
            }
            // two queued changes with the same (actor, seq)
            let mut qs: BTreeMap<(Vec<u8>, u64), ChangeHash> = BTreeMap::new();
            for c in q.iter() {
                if let Some(o) = qs.insert((c.actor_id().to_bytes().to_vec(), c.seq()), c.hash()) {
                    if o != c.hash() {
                        return Err(Violation::new("actor-seq-unique", "queued-vs-queued", format!("queue holds {} and {} with the same actor/seq", o, c.hash())));
                    }
                }
            }
        }
        Ok(())
    }

    fn check_edge(&self, s: &W, a: &Act, n: &W) -> Result<(), Violation> {
        // a local commit that claims (A, s) discards queued changes of a conflicting branch of A
        if let Act::Edit(r) = a {
            let c = n.docs[*r].get_last_local_change().unwrap();
            let q = orphans(&n.docs[*r]);
            let bad: BTreeSet<ChangeHash> = q.iter().filter(|x| x.actor_id() == c.actor_id() && x.seq() >= c.seq()).map(|x| x.hash()).collect();
            if let Some(b) = bad.iter().next() {
                return Err(Violation::new("local-commit-discards-conflicting-queue", "same-actor", format!("after committing seq {} the queue still holds {} of the same actor", c.seq(), b)));
            }
            // nor any descendant of one (descendants of removed ones): compare with the queue before
            let before: Vec<Change> = orphans(&s.docs[*r]);
            let removed_roots: BTreeSet<ChangeHash> = before.iter().filter(|x| x.actor_id() == c.actor_id() && x.seq() >= c.seq()).map(|x| x.hash()).collect();
            if !removed_roots.is_empty() {
                let mut tainted = removed_roots.clone();
                loop {
                    let mut grew = false;
                    for x in before.iter() {
                        if !tainted.contains(&x.hash()) && x.deps().iter().any(|d| tainted.contains(d)) {
                            tainted.insert(x.hash());
                            grew = true;
                        }
                    }
                    if !grew {
                        break;
                    }
                }
                for x in q.iter() {
                    if tainted.contains(&x.hash()) {
                        return Err(Violation::new("local-commit-discards-conflicting-queue", "descendant", format!("queue still holds {} which descends from a discarded change", x.hash())));
                    }
                }
            }
        }
        Ok(())
    }

    fn describe(&self, s: &W) -> serde_json::Value {
        serde_json::json!(s.docs.iter().map(|d| format!("{} changes, {} queued", d.get_changes(&[]).len(), orphans(d).len())).collect::<Vec<_>>())
    }
}

pub fn run(args: &Args) -> i32 {
    let rep = new_report("C38", args, "model_checking");
    let depth = if args.thorough() { 7 } else { 6 };
    let models = vec![(format!("shared-actor[depth={}]", depth), M { depth, check_err_unchanged: false })];
    let lim = Limits {
        max_wall_s: if args.thorough() { 1700.0 } else { 45.0 },
        ..Default::default()
    };
    let ex = run_models(&rep, args, models, &lim).unwrap_or(false);
    rep.finish(
        "explicit-state BFS over three real replicas of which two share an actor id (clone / stale reload) plus an observer; actions: local edit+commit, deliver any not-yet-held change of the universe to any replica via apply_changes / load_incremental / a sync message (children before parents allowed, so changes queue), 2-change batches in reverse order, save+load; state oracle: (actor,seq) pairs of applied changes unique, no queued change claims an (actor,seq) held by a different applied or queued change, load(save) round-trips including the queue; edge oracle: after a local commit the queue holds no change of that actor at >= that seq nor a descendant of one",
        &["the queue is read back by parsing the change chunks appended by save_with_options{retain_orphans}"],
        ex,
    )
}
