//! C26 — cursors track their element through edits.

use super::{new_report, run_models, Args};
use crate::explore::Limits;
use crate::graph::Graph;
use crate::obs::{hstr, reachable};
use crate::refmodel::{Id, RefDoc, SeqElem};
use crate::report::{Report, Violation};
use crate::world::{base, History, World};
use automerge::{Automerge, ChangeHash, CursorPosition, MoveCursor, ObjId, ObjType, ReadDoc, TextEncoding};
use std::collections::{BTreeSet, HashSet};
use std::sync::{Arc, Mutex};

fn id_of(o: &ObjId) -> Option<Id> {
    let s = o.to_string();
    let (c, a) = s.split_once('@')?;
    Some(Id { ctr: c.parse().ok()?, actor: hex::decode(a).ok()? })
}

/// expected resolution of a cursor on element `e` in the sequence `seq`
fn expected(seq: &[SeqElem], e: &Id, after: bool) -> Option<usize> {
    let pos = seq.iter().position(|x| &x.id == e)?;
    let before_units = |p: usize| -> usize { seq[..p].iter().map(|x| x.width).sum() };
    if seq[pos].visible || after {
        // visible: its own index; deleted + After: the number of visible units before it
        return Some(before_units(pos));
    }
    // deleted + Before: nearest visible ancestor along the insertion chain, else 0
    let mut cur = seq[pos].parent.clone();
    while let Some(p) = cur {
        let Some(pp) = seq.iter().position(|x| x.id == p) else { return Some(0) };
        if seq[pp].visible {
            return Some(before_units(pp));
        }
        cur = seq[pp].parent.clone();
    }
    Some(0)
}

pub fn check_doc(d: &Automerge, base_hashes: &BTreeSet<ChangeHash>, enc: TextEncoding, cap: usize, rep: &Report) -> Result<(), Violation> {
    let g = Graph::new(d.get_changes(&[]));
    let mut cuts = g.head_sets_above(base_hashes, cap);
    let cur = d.get_heads();
    if !cuts.iter().any(|c| hstr(c) == hstr(&cur)) {
        cuts.push(cur.clone());
    }
    // reference per cut
    let refs: Vec<RefDoc> = cuts
        .iter()
        .map(|h| {
            let anc = g.ancestors(h);
            let ex: Vec<_> = g.changes_of(&anc).iter().map(|c| c.decode()).collect();
            RefDoc::new(&ex, enc)
        })
        .collect();
    if refs.iter().any(|r| r.unsupported.is_some()) {
        return Ok(());
    }
    for (hi, h) in cuts.iter().enumerate() {
        for (obj, ty) in reachable(d, Some(h)) {
            if !matches!(ty, ObjType::List | ObjType::Text) {
                continue;
            }
            let oid = id_of(&obj);
            let is_text = ty == ObjType::Text;
            let seq_h = refs[hi].seq_elements(&oid, is_text);
            let len = d.length_at(&obj, h);
            if len != seq_h.iter().map(|x| x.width).sum::<usize>() {
                continue; // C02/C07 report this; the cursor oracle needs agreeing lengths
            }
            for i in 0..len {
                // the element a cursor taken at unit i refers to
                let mut acc = 0;
                let Some(elem) = seq_h.iter().find(|x| {
                    if !x.visible {
                        return false;
                    }
                    let hit = acc <= i && i < acc + x.width;
                    acc += x.width;
                    hit
                }) else {
                    continue;
                };
                let elem_start = expected(&seq_h, &elem.id, true).unwrap();
                for after in [true, false] {
                    let mode = if after { MoveCursor::After } else { MoveCursor::Before };
                    let mname = if after { "After" } else { "Before" };
                    let c = d
                        .get_cursor_moving(&obj, i, Some(h), mode)
                        .map_err(|e| Violation::new("get_cursor-ok", mname, format!("index {} at {:?}: {:?}", i, hstr(h), e)))?;
                    // creation identity
                    let p0 = d
                        .get_cursor_position(&obj, &c, Some(h))
                        .map_err(|e| Violation::new("get_cursor_position-ok", mname, format!("{:?}", e)))?;
                    if p0 != elem_start {
                        return Err(Violation::new("cursor-identity", mname, format!("cursor taken at {} (heads {:?}) resolves to {} at creation", i, hstr(h), p0)));
                    }
                    // string and byte forms refer to the same element
                    let c2 = automerge::Cursor::try_from(c.to_string().as_str()).map_err(|e| Violation::new("cursor-string-roundtrip", mname, format!("{:?}", e)))?;
                    let c3 = automerge::Cursor::try_from(&c.to_bytes()[..]).map_err(|e| Violation::new("cursor-bytes-roundtrip", mname, format!("{:?}", e)))?;
                    // every later cut (superset of ancestors), including the current heads
                    for (si, s) in cuts.iter().enumerate() {
                        if !g.ancestors(s).is_superset(&g.ancestors(h)) {
                            continue;
                        }
                        if !reachable(d, Some(s)).iter().any(|(o, _)| o == &obj) {
                            continue;
                        }
                        let seq_s = refs[si].seq_elements(&oid, is_text);
                        let want = expected(&seq_s, &elem.id, after);
                        for (form, cur) in [("cursor", &c), ("from-string", &c2), ("from-bytes", &c3)] {
                            let got = d.get_cursor_position(&obj, cur, Some(s)).map_err(|e| {
                                Violation::new("get_cursor_position-ok", format!("{}:{}", mname, form), format!("cursor of {} resolved at {:?}: {:?}", i, hstr(s), e))
                            })?;
                            if Some(got) != want {
                                let vis = seq_s.iter().find(|x| x.id == elem.id).map(|x| x.visible).unwrap_or(false);
                                return Err(Violation::new(
                                    "cursor-tracks-element",
                                    format!("{}:{}:{}", mname, if vis { "visible" } else { "deleted" }, if is_text { "text" } else { "list" }),
                                    format!(
                                        "cursor ({}) on element {} taken at index {} heads {:?}, resolved at {:?}: got {} want {:?}",
                                        form,
                                        elem.id.render(),
                                        i,
                                        hstr(h),
                                        hstr(s),
                                        got,
                                        want
                                    ),
                                ));
                            }
                            rep.count("resolutions", 1);
                        }
                        // current heads through the plain (index-backed) read as well
                        if hstr(s) == hstr(&cur) {
                            let got = d.get_cursor_position(&obj, &c, None).map_err(|e| Violation::new("get_cursor_position-ok", mname, format!("{:?}", e)))?;
                            if Some(got) != want {
                                return Err(Violation::new("cursor-tracks-element", format!("{}:current", mname), format!("element {} from index {}: got {} want {:?}", elem.id.render(), i, got, want)));
                            }
                        }
                    }
                }
            }
            // Start / End cursors
            for (p, name) in [(CursorPosition::Start, "Start"), (CursorPosition::End, "End")] {
                let is_start = name == "Start";
                let c = d.get_cursor(&obj, p, Some(h)).map_err(|e| Violation::new("get_cursor-ok", name, format!("{:?}", e)))?;
                let got = d.get_cursor_position(&obj, &c, None).map_err(|e| Violation::new("get_cursor_position-ok", name, format!("{:?}", e)))?;
                let want = if is_start { 0 } else { d.length(&obj) };
                if reachable(d, None).iter().any(|(o, _)| o == &obj) && got != want {
                    return Err(Violation::new("cursor-start-end", name, format!("got {} want {}", got, want)));
                }
            }
        }
    }
    Ok(())
}

pub fn run(args: &Args) -> i32 {
    let rep = Arc::new(new_report("C26", args, "model_checking"));
    let enc = TextEncoding::UnicodeCodePoint;
    let mut models = vec![];
    let cap = if args.thorough() { 24 } else { 8 };
    let cfgs: Vec<(&str, &str, Vec<u8>, u8)> = if args.thorough() {
        vec![("list", "B1", vec![3, 2], 2), ("text", "B1", vec![3, 2], 2), ("list", "B2", vec![2, 2], 2), ("text", "B2", vec![2, 2], 2), ("marks", "B2", vec![2, 1], 1)]
    } else {
        vec![("list", "B1", vec![2, 1], 1), ("text", "B1", vec![2, 1], 1), ("list", "B2", vec![1, 1], 1), ("text", "B2", vec![1, 1], 1)]
    };
    for (theme, bname, edits, merges) in cfgs {
        let mut h = History::new(theme, bname, enc, &edits, merges);
        let b = base(bname, enc);
        // cursors may be taken anywhere in the history: allow cuts through the last base change too
        let bc = b.get_changes(&[]);
        let mut base_hashes: BTreeSet<ChangeHash> = bc.iter().map(|c| c.hash()).collect();
        if bname == "B2" {
            // start the cuts below the two prelude branches so that deletions made there are "later"
            base_hashes = bc.iter().take(1).map(|c| c.hash()).collect();
        }
        let seen: Mutex<HashSet<Vec<String>>> = Mutex::new(HashSet::new());
        let rep2 = rep.clone();
        h.state_oracle = Some(Box::new(move |w: &World| {
            let mut pool: Vec<Automerge> = w.docs.clone();
            for i in 0..w.docs.len() {
                for j in (i + 1)..w.docs.len() {
                    let mut a = w.docs[i].clone();
                    a.merge(&mut w.docs[j].clone()).map_err(|e| Violation::new("merge-ok", "Err", format!("{:?}", e)))?;
                    pool.push(a);
                }
            }
            for d in pool.iter() {
                if !seen.lock().unwrap().insert(hstr(&d.get_heads())) && !crate::util::replaying() {
                    continue;
                }
                check_doc(d, &base_hashes, enc, cap, &rep2)?;
                rep2.count("evaluations", 1);
            }
            Ok(())
        }));
        models.push((h.label(theme), h));
    }
    let lim = Limits {
        max_wall_s: if args.thorough() { 1700.0 } else { 45.0 },
        ..Default::default()
    };
    let ex = run_models(&rep, args, models, &lim).unwrap_or(false);
    rep.finish(
        "history explorer over the list and text themes (inserts at head/middle/end, deletes, overwrites, merges of concurrent edits) on bases B1/B2; for every distinct document (replicas and merges), every consistent cut H and every sequence object: a cursor is taken at EVERY index at H in both move modes (plus Start/End); at creation it resolves to its element's index; at every later cut S (and at the current heads through both the walked and the indexed read) it resolves to what the reference interpreter predicts: the element's index while visible; once deleted: After = number of visible units before it, Before = index of the nearest visible ancestor along the insertion chain, else 0; the cursor's string and byte forms resolve identically",
        &["insertion chain = the `key` (reference element) of the decoded insert ops"],
        ex,
    )
}
