//! C13 — truncated storage loads to the last complete save; C14 — corrupted storage is rejected.
//! Files come from the C12 explorer (a save followed by incremental pieces).

use super::c12;
use super::{new_report, Args};
use crate::chunks::{split_chunks, ChunkAt, T_CHANGE, T_COMPRESSED, T_DOC};
use crate::explore::{explore, Limits};
use crate::obs::hstr;
use crate::report::{Report, Violation};
use crate::util::guard;
use crate::world::{base, obs_of};
use automerge::{Automerge, LoadOptions, OnPartialLoad, ReadDoc, TextEncoding};
use rayon::prelude::*;
use std::collections::BTreeMap;
use std::sync::{Arc, Mutex};

pub struct FileCase {
    pub name: String,
    pub bytes: Vec<u8>,
}

/// run the C12 explorer without its own oracle and collect every distinct file
/// (each save concatenated with everything written after it)
pub fn harvest_files(thorough: bool, rep: &Report) -> Vec<FileCase> {
    let files: Arc<Mutex<BTreeMap<String, FileCase>>> = Arc::new(Mutex::new(BTreeMap::new()));
    for (label, mut m) in c12::models(thorough) {
        m.check = false;
        let f2 = files.clone();
        let l2 = label.clone();
        m.harvest = Some(Box::new(move |w: &c12::W| {
            for (i, p) in w.pieces.iter().enumerate() {
                if p.kind != "save" || i + 1 == w.pieces.len() && w.pieces.len() > 1 {
                    continue;
                }
                let mut file = vec![];
                let mut kinds = vec![];
                for q in w.pieces[i..].iter() {
                    file.extend_from_slice(&q.bytes);
                    kinds.push(q.kind);
                }
                let key = crate::util::sha256_hex(&file);
                f2.lock().unwrap().entry(key).or_insert(FileCase {
                    name: format!("{} {}", l2, kinds.join("+")),
                    bytes: file,
                });
            }
        }));
        let sub = Report::new("harvest", "quick", "other");
        let _ = explore(&m, &sub, &Limits { max_wall_s: 120.0, ..Default::default() }, &label);
    }
    let v: Vec<FileCase> = std::mem::take(&mut *files.lock().unwrap()).into_values().collect();
    rep.count("files", v.len() as u64);
    v
}

fn expected_for_prefix(file: &[u8], chunks: &[ChunkAt], k: usize) -> Result<Automerge, String> {
    if k == 0 {
        return Ok(Automerge::new());
    }
    let mut d = Automerge::load(&file[chunks[0].start..chunks[0].end]).map_err(|e| format!("first chunk does not load alone: {:?}", e))?;
    for c in chunks[1..k].iter() {
        d.load_incremental(&file[c.start..c.end]).map_err(|e| format!("chunk at {} does not load_incremental: {:?}", c.start, e))?;
    }
    Ok(d)
}

fn check_cuts(f: &FileCase) -> Result<u64, Violation> {
    let (chunks, stop) = split_chunks(&f.bytes);
    if stop != f.bytes.len() || chunks.is_empty() {
        return Err(Violation::new("file-grammar", "chunks", format!("{}: file is not a sequence of chunks", f.name)));
    }
    let boundaries: Vec<usize> = std::iter::once(0).chain(chunks.iter().map(|c| c.end)).collect();
    let mut expected: Vec<Option<crate::obs::Obs>> = vec![None; chunks.len() + 1];
    let mut n = 0;
    for cut in 0..=f.bytes.len() {
        let data = &f.bytes[..cut];
        let complete = boundaries.iter().filter(|&&b| b <= cut).count() - 1;
        let on_boundary = boundaries.contains(&cut);
        let case = serde_json::json!({"file": f.name, "cut": cut, "len": f.bytes.len(), "file_hex": hex::encode(&f.bytes)});
        // strict load
        match guard(|| Automerge::load(data)) {
            Err(p) => return Err(Violation::new("panic", p.location, format!("strict load of {} cut at {}: {}", f.name, cut, p.message)).with_case(case)),
            Ok(r) => {
                if r.is_ok() != on_boundary {
                    return Err(Violation::new(
                        "strict-load-iff-boundary",
                        if on_boundary { "boundary-rejected" } else { "mid-chunk-accepted" },
                        format!("{}: cut {} of {} ({} complete chunks, boundary={}): strict load {}", f.name, cut, f.bytes.len(), complete, on_boundary, if r.is_ok() { "succeeded" } else { "failed" }),
                    )
                    .with_case(case));
                }
            }
        }
        // partial loads allowed
        let r = guard(|| Automerge::load_with_options(data, LoadOptions::new().on_partial_load(OnPartialLoad::Ignore)));
        match r {
            Err(p) => return Err(Violation::new("panic", p.location, format!("partial load of {} cut at {}: {}", f.name, cut, p.message)).with_case(case)),
            Ok(r) => {
                if complete == 0 && cut > 0 {
                    if r.is_ok() {
                        return Err(Violation::new("partial-load", "cut-in-first-chunk-accepted", format!("{}: cut {} inside the first chunk loaded", f.name, cut)).with_case(case));
                    }
                } else {
                    let d = r.map_err(|e| {
                        Violation::new("partial-load", "complete-prefix-rejected", format!("{}: cut {} ({} complete chunks): {:?}", f.name, cut, complete, e)).with_case(case.clone())
                    })?;
                    if expected[complete].is_none() {
                        let e = expected_for_prefix(&f.bytes, &chunks, complete).map_err(|m| Violation::new("file-grammar", "prefix", m))?;
                        expected[complete] = Some(obs_of(&e));
                    }
                    let want = expected[complete].as_ref().unwrap();
                    if let Some(diff) = obs_of(&d).diff(want) {
                        let site = if on_boundary { "on-boundary" } else { "mid-chunk" };
                        return Err(Violation::new(
                            "partial-load==last-complete-chunk",
                            site,
                            format!("{}: cut {} of {} with {} complete chunks ({}): {}", f.name, cut, f.bytes.len(), complete, site, diff),
                        )
                        .with_case(case));
                    }
                }
            }
        }
        n += 1;
    }
    Ok(n)
}

pub fn run_c13(args: &Args) -> i32 {
    let rep = new_report("C13", args, "fault_enumeration");
    let mut files = harvest_files(args.thorough(), &rep);
    if args.thorough() {
        // a file whose first chunk has DEFLATEd columns
        let enc = TextEncoding::UnicodeCodePoint;
        let mut d = base("B3", enc);
        let mut bytes = d.save();
        for i in 0..3 {
            let h = d.get_heads();
            let _ = crate::world::edit_commit(&mut d, &crate::alphabet::Op::Put(crate::alphabet::Role::Root, crate::alphabet::Key::K("a"), crate::alphabet::Val::Int(i)));
            bytes.extend_from_slice(&d.save_after(&h));
        }
        files.push(FileCase { name: "B3 save+3 incrementals".into(), bytes });
    }
    let results: Vec<Result<u64, Violation>> = files.par_iter().map(check_cuts).collect();
    let mut distinct = 0;
    for (f, r) in files.iter().zip(results) {
        match r {
            Ok(n) => {
                rep.count("evaluations", n);
                distinct += 1;
            }
            Err(v) => {
                let mut v = v;
                if v.case.is_null() {
                    v.case = serde_json::json!({"file": f.name, "file_hex": hex::encode(&f.bytes)});
                }
                rep.violation(v);
            }
        }
    }
    rep.count("distinct_nontrivial", distinct);
    if let Some(f) = files.first() {
        rep.sample(serde_json::json!({"file": f.name, "bytes": f.bytes.len(), "cuts": f.bytes.len() + 1}));
    }
    rep.finish(
        "files = every distinct (save + all later pieces) sequence produced by the C12 explorer (writer with uncommitted edits, peer merges, save / save_incremental / save_after); for EVERY byte offset 0..=len: strict load succeeds iff the cut is a chunk boundary (boundaries computed by the harness from the chunk grammar); load with OnPartialLoad::Ignore: cut inside the first chunk => Err, cut 0 => empty document, otherwise reads equal the document built by loading the first chunk and load_incremental-ing each further complete chunk; no panic; distinct_nontrivial = files fully enumerated",
        &["expected prefix document is built chunk by chunk with load + load_incremental"],
        true,
    )
}

fn site_class(file: &[u8], chunks: &[ChunkAt], off: usize) -> &'static str {
    for c in chunks {
        if off >= c.start && off < c.end {
            let r = off - c.start;
            return match r {
                0..=3 => "magic",
                4..=7 => "checksum",
                8 => "type",
                _ if off < c.body_start => "length",
                _ => {
                    if c.typ == T_COMPRESSED && off + 1 == c.end {
                        "deflate-last-byte"
                    } else if c.typ == T_COMPRESSED {
                        "deflate-body"
                    } else if c.typ == T_DOC {
                        "document-body"
                    } else if c.typ == T_CHANGE {
                        "change-body"
                    } else {
                        "bundle-body"
                    }
                }
            };
        }
    }
    "outside"
}

fn check_flips(f: &FileCase, overwrites: bool) -> (u64, Vec<Violation>) {
    let (chunks, _) = split_chunks(&f.bytes);
    let orig = match Automerge::load(&f.bytes) {
        Ok(d) => d,
        Err(e) => return (0, vec![Violation::new("file-grammar", "original-does-not-load", format!("{}: {:?}", f.name, e))]),
    };
    let want = (obs_of(&orig), hstr(&orig.get_missing_deps(&[])));
    let mut n = 0;
    let mut out: Vec<Violation> = vec![];
    let mut seen_sig = std::collections::BTreeSet::new();
    let mut try_one = |m: &[u8], off: usize, what: &str, out: &mut Vec<Violation>| {
        n += 1;
        let class = site_class(&f.bytes, &chunks, off);
        let case = serde_json::json!({"file": f.name, "offset": off, "mutation": what, "site": class, "mutated_hex": hex::encode(m)});
        let v = match guard(|| Automerge::load(m)) {
            Err(p) => Some(Violation::new("panic", p.location, format!("{} {} at {} ({}): {}", f.name, what, off, class, p.message))),
            Ok(Err(_)) => None,
            Ok(Ok(d)) => {
                let got = (obs_of(&d), hstr(&d.get_missing_deps(&[])));
                let same = got == want;
                Some(Violation::new(
                    "corruption-rejected",
                    format!("{}:{}", class, if same { "identical-document" } else { "DIFFERENT-document" }),
                    format!("{}: {} at offset {} ({}) loads; document is {}", f.name, what, off, class, if same { "identical" } else { "different" }),
                ))
            }
        };
        if let Some(v) = v {
            if seen_sig.insert(v.sig()) || out.len() < 4 {
                out.push(v.with_case(case));
            }
        }
    };
    for off in 0..f.bytes.len() {
        for bit in 0..8 {
            let mut m = f.bytes.clone();
            m[off] ^= 1 << bit;
            try_one(&m, off, &format!("bit {} flipped", bit), &mut out);
        }
        if overwrites && f.bytes.len() <= 300 {
            for b in 0..=255u8 {
                if b != f.bytes[off] && (b ^ f.bytes[off]).count_ones() != 1 {
                    let mut m = f.bytes.clone();
                    m[off] = b;
                    try_one(&m, off, &format!("byte set to {:#04x}", b), &mut out);
                }
            }
        }
    }
    (n, out)
}

pub fn run_c14(args: &Args) -> i32 {
    let rep = new_report("C14", args, "fault_enumeration");
    let enc = TextEncoding::UnicodeCodePoint;
    let mut files = harvest_files(false, &rep);
    if !args.thorough() {
        // the quick tier keeps a spread of the harvested files
        let step = (files.len() / 12).max(1);
        files = files.into_iter().step_by(step).collect();
    }
    // single saves (compressed and not), change bytes raw and DEFLATEd, a bundle
    for b in ["B1", "B2", "B3"] {
        let d = base(b, enc);
        if b != "B3" || args.thorough() {
            files.push(FileCase { name: format!("{} save()", b), bytes: d.save() });
        }
        if b != "B3" {
            files.push(FileCase { name: format!("{} save_nocompress()", b), bytes: d.save_nocompress() });
        }
        let cs = d.get_changes(&[]);
        let first = cs[0].clone();
        if b != "B3" {
            files.push(FileCase { name: format!("{} first change raw_bytes", b), bytes: first.raw_bytes().to_vec() });
        }
        if b == "B3" {
            // a document made of one large change: its bytes() are DEFLATEd and it loads on its own
            use automerge::transaction::Transactable;
            let mut big = Automerge::new().with_actor(crate::world::actor(0x21));
            let mut tx = big.transaction();
            let t = tx.put_object(automerge::ROOT, "t", automerge::ObjType::Text).unwrap();
            let s: String = (0..400).map(|i| char::from(b'a' + (i % 7) as u8)).collect();
            tx.splice_text(&t, 0, 0, &s).unwrap();
            tx.commit();
            let mut c = big.get_changes(&[])[0].clone();
            let comp = c.bytes().to_vec();
            if comp != c.raw_bytes() {
                files.push(FileCase { name: "one large change bytes() (DEFLATE)".into(), bytes: comp });
            }
        }
        if b == "B2" {
            if let Ok(bu) = d.bundle(cs.iter().map(|c| c.hash())) {
                files.push(FileCase { name: format!("{} bundle of all changes", b), bytes: bu.bytes().to_vec() });
            }
        }
    }
    rep.count("files", files.len() as u64);
    let overwrites = args.thorough();
    let results: Vec<(u64, Vec<Violation>)> = files.par_iter().map(|f| check_flips(f, overwrites)).collect();
    let mut distinct = 0;
    for (n, vs) in results {
        rep.count("evaluations", n);
        distinct += 1;
        for v in vs {
            rep.violation(v);
        }
    }
    rep.count("distinct_nontrivial", distinct);
    if let Some(f) = files.first() {
        rep.sample(serde_json::json!({"file": f.name, "bytes": f.bytes.len(), "single_bit_flips": f.bytes.len() * 8}));
    }
    rep.finish(
        "inputs = (save + incremental pieces) files from the C12 explorer, single save() / save_nocompress() of B1/B2/(B3), a change's raw_bytes, a change's DEFLATEd bytes(), a bundle; EVERY single-bit flip of every input (and, thorough, every other byte value at every offset of inputs <= 300 B) is loaded: the call must return Err; an Ok is a violation classified by flip site (magic / checksum / type / length / document-body / change-body / deflate-body / deflate-last-byte / bundle-body) and by whether the loaded document is identical to or different from the original; no panic",
        &["32-bit checksum: a colliding flip would be deterministic for a fixed input, not flaky"],
        true,
    )
}
