//! C35 part 2 — hexane loaders on untrusted bytes: every byte string up to a bound and every
//! single-site mutation of the saved bytes of the columns the C34 explorer reaches.
//! `Ok(c)` ⇒ the column iterates, passes its invariants and round-trips; `Err` otherwise; never a panic.

use super::c34::*;
use super::Args;
use crate::report::{Report, Violation};
use crate::util::guard;
use rayon::prelude::*;
use serde_json::json;
use std::collections::BTreeSet;

/// the saved bytes of every column reachable with `depth` edits
fn corpus<S: Sut>(depth: usize) -> BTreeSet<Vec<u8>> {
    let dom = S::domain();
    let mut out = BTreeSet::new();
    let mut frontier: Vec<(S, Vec<S::V>)> = vec![(S::new(4), vec![])];
    let mut seen: std::collections::HashSet<Vec<S::V>> = Default::default();
    for _ in 0..depth {
        let mut next = vec![];
        for (c, m) in frontier.iter() {
            for a in actions(m.len(), &dom, 6) {
                if !matches!(a, Act::Push(_) | Act::Insert(..) | Act::SpliceRun(..) | Act::Splice(..)) {
                    continue;
                }
                let mut c2 = c.clone();
                let mut m2 = m.clone();
                apply_model(&mut m2, &a);
                if guard(|| c2.apply(&a)).ok() != Some(Ok(())) {
                    continue;
                }
                if seen.insert(m2.clone()) {
                    if let Ok(b) = guard(|| c2.save()) {
                        out.insert(b);
                    }
                    next.push((c2, m2));
                }
            }
        }
        frontier = next;
    }
    out
}

fn one<S: Sut>(bytes: &[u8]) -> Result<bool, (String, String)> {
    let r = guard(|| -> Result<bool, (String, String)> {
        match S::load(bytes) {
            Err(_) => Ok(false),
            Ok(c) => {
                // whatever loads must be a sound column. The whole battery is cubic in the length,
                // and a run length taken from the input can be astronomically large: long columns
                // get the linear checks only, huge ones the byte-level round trip only.
                let n = c.len();
                if n > 4096 {
                    let saved = c.save();
                    let l = S::load(&saved).map_err(|e| ("accepted:save-does-not-load".to_string(), format!("bytes {:?} load (len {}), but the column's save {:?} does not: {}", bytes, n, saved, e)))?;
                    if l.len() != n || l.save() != saved {
                        return Err(("accepted:save-not-stable".into(), format!("bytes {:?}: len {} -> {} after save/load", bytes, n, l.len())));
                    }
                    return Ok(true);
                }
                c.invariants();
                let v = c.values();
                if v.len() != n && S::name() != "RawColumn" {
                    return Err(("accepted:len".into(), format!("bytes {:?} load to a column with len() {} that iterates {} items", bytes, n, v.len())));
                }
                if n <= 12 {
                    c.battery(&v).map_err(|e| (format!("accepted:{}", e.split(':').next().unwrap_or("?")), format!("bytes {:?} load to a column that disagrees with its own contents {:?}: {}", bytes, v, e)))?;
                }
                let saved = c.save();
                let l = S::load(&saved).map_err(|e| ("accepted:save-does-not-load".to_string(), format!("bytes {:?} load, but the column's save {:?} does not: {}", bytes, saved, e)))?;
                if S::name() != "RawColumn" && l.values() != v {
                    return Err(("accepted:save-load-differs".into(), format!("bytes {:?} load to {:?}; save -> load gives {:?}", bytes, v, l.values())));
                }
                if l.save() != saved {
                    return Err(("accepted:save-not-stable".into(), format!("bytes {:?}: save {:?}, save(load(save)) {:?}", bytes, saved, l.save())));
                }
                Ok(true)
            }
        }
    });
    match r {
        Ok(x) => x,
        Err(p) => Err((format!("panic@{}", p.location), format!("loading {:?}: {}", bytes, p.message))),
    }
}

fn family<S: Sut>(rep: &Report, k: usize, depth: usize, all_values: bool) {
    let name = S::name();
    let fail = |site: String, detail: String, bytes: &[u8]| {
        rep.violation(Violation::new("load-safe", format!("{}:{}", name, site), detail).with_case(json!({"engine": "hexane-bytes", "type": name, "hex": hex::encode(bytes)})));
    };
    // (a) every byte string of length <= k
    let firsts: Vec<Option<u8>> = std::iter::once(None).chain((0..=255u8).map(Some)).collect();
    let res: Vec<(u64, u64)> = firsts
        .par_iter()
        .map(|f| {
            let mut cases = 0u64;
            let mut acc = 0u64;
            let mut buf: Vec<u8> = vec![];
            let mut visit = |b: &[u8]| {
                cases += 1;
                match one::<S>(b) {
                    Ok(true) => acc += 1,
                    Ok(false) => {}
                    Err((site, d)) => fail(site, d, b),
                }
            };
            match f {
                None => visit(&[]),
                Some(x) => {
                    buf.push(*x);
                    visit(&buf);
                    if k >= 2 {
                        for y in 0..=255u8 {
                            buf.truncate(1);
                            buf.push(y);
                            visit(&buf);
                            if k >= 3 {
                                for z in 0..=255u8 {
                                    buf.truncate(2);
                                    buf.push(z);
                                    visit(&buf);
                                }
                            }
                        }
                    }
                }
            }
            (cases, acc)
        })
        .collect();
    let short_cases: u64 = res.iter().map(|r| r.0).sum();
    let short_acc: u64 = res.iter().map(|r| r.1).sum();
    // (b) single-site mutations of saved columns
    let corp: Vec<Vec<u8>> = corpus::<S>(depth).into_iter().collect();
    let res: Vec<(u64, u64)> = corp
        .par_iter()
        .map(|b| {
            let mut cases = 0u64;
            let mut acc = 0u64;
            let mut visit = |x: &[u8]| {
                cases += 1;
                match one::<S>(x) {
                    Ok(true) => acc += 1,
                    Ok(false) => {}
                    Err((site, d)) => fail(site, d, x),
                }
            };
            visit(b);
            for at in 0..b.len() {
                let vals: Vec<u8> = if all_values { (0..=255u8).collect() } else { vec![0x00, 0x01, 0x7f, 0x80, 0xff, b[at] ^ 1, b[at] ^ 0x80, b[at].wrapping_add(1), b[at].wrapping_sub(1)] };
                for v in vals {
                    if v != b[at] {
                        let mut m = b.clone();
                        m[at] = v;
                        visit(&m);
                    }
                }
                let mut m = b.clone();
                m.remove(at);
                visit(&m);
                for ins in [0x00u8, 0x7f, 0x80, 0xff] {
                    let mut m = b.clone();
                    m.insert(at, ins);
                    visit(&m);
                }
                if at + 1 < b.len() {
                    let mut m = b.clone();
                    m.swap(at, at + 1);
                    visit(&m);
                }
                visit(&b[..at]);
                // LEB extremes in place of the byte
                for x in crate::bytes::EXTREMES {
                    let mut enc = vec![];
                    crate::util::uleb(x, &mut enc);
                    let mut m = b[..at].to_vec();
                    m.extend_from_slice(&enc);
                    m.extend_from_slice(&b[at + 1..]);
                    visit(&m);
                }
            }
            (cases, acc)
        })
        .collect();
    let mut_cases: u64 = res.iter().map(|r| r.0).sum();
    let mut_acc: u64 = res.iter().map(|r| r.1).sum();
    rep.count("evaluations", short_cases + mut_cases);
    rep.count("accepted_inputs", short_acc + mut_acc);
    rep.set(&format!("bytes:{}", name), json!({"short_strings": short_cases, "short_accepted": short_acc, "corpus_columns": corp.len(), "mutations": mut_cases, "mutations_accepted": mut_acc}));
}

macro_rules! families {
    ($rep:expr, $k:expr, $depth:expr, $all:expr, [$($t:ty),*]) => {{
        $( family::<$t>($rep, $k, $depth, $all); )*
    }};
}

pub fn mutations(args: &Args, rep: &Report) {
    let thorough = args.tier == "thorough";
    let (k, depth) = if thorough { (3, 3) } else { (2, 2) };
    families!(rep, k, depth, thorough, [ColU64, ColI64, ColU32, ColOptU64, ColOptI64, ColBool, ColString, ColOptString, ColBytes, PreU64, PreU32, PreBool, PreOptU64, DelU32, DelU64, DelI64, DelOptI64, DelOptU32, Raw]);
    rep.note(format!("untrusted bytes per column type: every byte string of length <= {}, and for every column reachable with {} growing edits (max_segments 4) every single-site mutation of its saved bytes ({} overwrite values per site, deletion, 4 insertions, transposition, truncation, 13 LEB extremes)", k, depth, if thorough { "all 255" } else { "9" }));
}
