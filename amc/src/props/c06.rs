//! C06 — failed calls leave the document unchanged.

use super::c38;
use super::{new_report, run_models, Args};
use crate::explore::Limits;
use crate::obs::hstr;
use crate::report::{Report, Violation};
use crate::world::{actor, base, edit_commit, obs_of, EditResult};
use automerge::marks::{ExpandMark, Mark};
use automerge::transaction::Transactable;
use automerge::{Automerge, ObjId, ObjType, ReadDoc, SaveOptions, TextEncoding, ROOT};

fn snapshot(d: &Automerge) -> (crate::obs::Obs, Vec<u8>, Vec<String>) {
    (
        obs_of(d),
        d.save_with_options(SaveOptions { deflate: false, retain_orphans: true }),
        hstr(&d.get_missing_deps(&[])),
    )
}

fn unchanged(before: &(crate::obs::Obs, Vec<u8>, Vec<String>), d: &Automerge, call: &str, arg: &str) -> Result<(), Violation> {
    let after = snapshot(d);
    if &after != before {
        let what = if after.0 != before.0 { "reads" } else if after.2 != before.2 { "missing-deps" } else { "saved-bytes" };
        return Err(Violation::new(
            "err-leaves-unchanged",
            format!("{}:{}", call, what),
            format!("{}({}) returned Err but the document's {} changed: {:?}", call, arg, what, after.0.diff(&before.0)),
        ));
    }
    Ok(())
}

/// the same follow-up edit on the document after the failed call and on a pristine clone
fn same_followup(pristine: &Automerge, d: &Automerge, call: &str) -> Result<(), Violation> {
    let mut a = pristine.clone();
    let mut b = d.clone();
    let op = crate::alphabet::Op::Put(crate::alphabet::Role::Root, crate::alphabet::Key::K("followup"), crate::alphabet::Val::Int(1));
    let (ra, rb) = (edit_commit(&mut a, &op), edit_commit(&mut b, &op));
    match (ra, rb) {
        (EditResult::Done, EditResult::Done) => {
            let (ca, cb) = (a.get_last_local_change().unwrap(), b.get_last_local_change().unwrap());
            if ca.raw_bytes() != cb.raw_bytes() {
                return Err(Violation::new("err-same-later-behaviour", call.to_string(), "the same edit after the failed call produces a different change than on an untouched clone"));
            }
            Ok(())
        }
        _ => Err(Violation::new("err-same-later-behaviour", call.to_string(), "follow-up edit failed")),
    }
}

fn corrupt_menu(d: &Automerge, rep: &Report) -> Result<(), Violation> {
    // pieces: every change's raw bytes, the whole save, save_after of the first head set
    let mut pieces: Vec<(String, Vec<u8>)> = vec![];
    // a change the document does not have yet: made on a fork
    let mut f = d.fork().with_actor(actor(0x44));
    let op = crate::alphabet::Op::Put(crate::alphabet::Role::Root, crate::alphabet::Key::K("new"), crate::alphabet::Val::Str("v"));
    if let EditResult::Done = edit_commit(&mut f, &op) {
        let c1 = f.get_last_local_change().unwrap();
        let _ = edit_commit(&mut f, &crate::alphabet::Op::Put(crate::alphabet::Role::Root, crate::alphabet::Key::K("new"), crate::alphabet::Val::Int(2)));
        let c2 = f.get_last_local_change().unwrap();
        pieces.push(("new-change".into(), c1.raw_bytes().to_vec()));
        let mut both = c1.raw_bytes().to_vec();
        both.extend_from_slice(c2.raw_bytes());
        pieces.push(("two-new-changes".into(), both));
        pieces.push(("save-of-fork".into(), f.save()));
    }
    let before = snapshot(d);
    let mut try_bytes = |name: &str, bytes: &[u8]| -> Result<(), Violation> {
        let mut x = d.clone();
        rep.count("failing_calls_tried", 1);
        match crate::util::guard(|| x.load_incremental(bytes)) {
            Err(p) => Err(Violation::new("panic", p.location, format!("load_incremental({}): {}", name, p.message))),
            Ok(Ok(_)) => Ok(()),
            Ok(Err(_)) => {
                rep.count("calls_that_failed", 1);
                unchanged(&before, &x, "load_incremental", name)?;
                same_followup(d, &x, "load_incremental")
            }
        }
    };
    try_bytes("garbage", b"\x85\x6f\x4a\x83garbage")?;
    try_bytes("not-a-chunk", b"hello world")?;
    for (name, bytes) in pieces.iter() {
        // every single-bit corruption
        for i in 0..bytes.len() {
            for bit in 0..8 {
                let mut m = bytes.clone();
                m[i] ^= 1 << bit;
                try_bytes(&format!("{}-bitflip", name), &m)?;
            }
        }
        // valid prefix + corrupt suffix, truncations
        for cut in 1..bytes.len() {
            try_bytes(&format!("{}-truncated", name), &bytes[..cut])?;
        }
        let mut m = bytes.clone();
        m.extend_from_slice(b"\x85\x6f\x4a\x83\x00\x00\x00\x00\x01\x05abcde");
        try_bytes(&format!("{}-then-corrupt-chunk", name), &m)?;
        let mut m = bytes.clone();
        m.extend_from_slice(b"trailing garbage");
        try_bytes(&format!("{}-then-garbage", name), &m)?;
    }
    Ok(())
}

fn rejected_ops_menu(d: &Automerge, rep: &Report) -> Result<(), Violation> {
    use crate::alphabet::{resolve, Role};
    let before = snapshot(d);
    let l = resolve(d, Role::L).map(|x| x.0);
    let t = resolve(d, Role::T).map(|x| x.0);
    let m = resolve(d, Role::M).map(|x| x.0);
    let foreign = {
        let mut o = Automerge::new().with_actor(actor(0x77));
        let mut tx = o.transaction();
        for _ in 0..40 {
            tx.put(ROOT, "x", 1).unwrap();
        }
        let id = tx.put_object(ROOT, "o", ObjType::Map).unwrap();
        tx.commit();
        id
    };
    type Call = Box<dyn Fn(&mut automerge::transaction::Transaction<'_>) -> Result<(), String>>;
    let mut calls: Vec<(String, Call)> = vec![];
    let e = |r: Result<(), automerge::AutomergeError>| r.map_err(|e| format!("{:?}", e));
    {
        let f = foreign.clone();
        calls.push(("put(unknown obj)".into(), Box::new(move |tx| e(tx.put(&f, "a", 1)))));
        let f = foreign.clone();
        calls.push(("insert(unknown obj)".into(), Box::new(move |tx| e(tx.insert(&f, 0, 1)))));
        let f = foreign.clone();
        calls.push(("delete(unknown obj)".into(), Box::new(move |tx| e(tx.delete(&f, "a")))));
        calls.push(("put(index on map)".into(), Box::new(move |tx| e(tx.put(ROOT, 0usize, 1)))));
        calls.push(("insert(on map)".into(), Box::new(move |tx| e(tx.insert(ROOT, 0, 1)))));
        calls.push(("increment(non-counter)".into(), Box::new(move |tx| e(tx.increment(ROOT, "nonexistent", 1)))));
        calls.push(("splice_text(on map)".into(), Box::new(move |tx| e(tx.splice_text(ROOT, 0, 0, "x")))));
        calls.push(("mark(on map)".into(), Box::new(move |tx| e(tx.mark(ROOT, Mark::new("b".into(), true, 0, 1), ExpandMark::After)))));
    }
    if let Some(l) = l.clone() {
        let len = d.length(&l);
        let (a, b, c, g, h) = (l.clone(), l.clone(), l.clone(), l.clone(), l.clone());
        calls.push(("put(list, key)".into(), Box::new(move |tx| e(tx.put(&a, "a", 1)))));
        calls.push(("insert(list, len+1)".into(), Box::new(move |tx| e(tx.insert(&b, len + 1, 1)))));
        calls.push(("put(list, len)".into(), Box::new(move |tx| e(tx.put(&c, len, 1)))));
        calls.push(("delete(list, len)".into(), Box::new(move |tx| e(tx.delete(&g, len)))));
        calls.push(("insert(list, usize::MAX)".into(), Box::new(move |tx| e(tx.insert(&h, usize::MAX, 1)))));
        let k = l.clone();
        calls.push(("splice_text(on list)".into(), Box::new(move |tx| e(tx.splice_text(&k, 0, 0, "x")))));
    }
    if let Some(t) = t.clone() {
        let len = d.length(&t);
        let (a, b, c, g) = (t.clone(), t.clone(), t.clone(), t.clone());
        calls.push(("splice_text(len+1)".into(), Box::new(move |tx| e(tx.splice_text(&a, len + 1, 0, "x")))));
        calls.push(("splice_text(del past end)".into(), Box::new(move |tx| e(tx.splice_text(&b, 0, len as isize + 5, "")))));
        calls.push(("splice_text(neg del past 0)".into(), Box::new(move |tx| e(tx.splice_text(&c, 1.min(len), -5, "")))));
        calls.push(("mark(past end)".into(), Box::new(move |tx| e(tx.mark(&g, Mark::new("b".into(), true, 0, len + 3), ExpandMark::After)))));
        let k = t.clone();
        calls.push(("put(text, key)".into(), Box::new(move |tx| e(tx.put(&k, "a", 1)))));
    }
    if let Some(m) = m {
        let a = m.clone();
        calls.push(("increment(map non-counter)".into(), Box::new(move |tx| e(tx.increment(&a, "a", 1)))));
    }
    for (name, call) in calls.iter() {
        // the failing call alone, and after a valid op in the same transaction
        for with_valid in [false, true] {
            let mut x = d.clone();
            let mut tx = x.transaction();
            if with_valid {
                tx.put(ROOT, "valid", 1).unwrap();
            }
            let pending_before = tx.pending_ops();
            let inside_before = crate::obs::observe(&tx, None, &[]);
            rep.count("failing_calls_tried", 1);
            let r = crate::util::guard(std::panic::AssertUnwindSafe(|| call(&mut tx)));
            match r {
                Err(p) => {
                    return Err(Violation::new("panic", p.location, format!("{}: {}", name, p.message)));
                }
                Ok(Ok(())) => {
                    tx.rollback();
                }
                Ok(Err(_)) => {
                    rep.count("calls_that_failed", 1);
                    if tx.pending_ops() != pending_before {
                        return Err(Violation::new("err-leaves-unchanged", format!("{}:pending_ops", name), "pending op count changed by a rejected call"));
                    }
                    let inside_after = crate::obs::observe(&tx, None, &[]);
                    if let Some(diff) = inside_after.diff(&inside_before) {
                        return Err(Violation::new("err-leaves-unchanged", format!("{}:reads-in-tx", name), diff));
                    }
                    tx.rollback();
                    unchanged(&before, &x, name, "")?;
                    same_followup(d, &x, name)?;
                }
            }
        }
    }
    let _: Option<ObjId> = None;
    Ok(())
}

pub fn run(args: &Args) -> i32 {
    let rep = new_report("C06", args, "model_checking");
    let enc = TextEncoding::UnicodeCodePoint;
    let depth = if args.thorough() { 7 } else { 6 };
    let models = vec![(format!("shared-actor[depth={}]", depth), c38::M { depth, check_err_unchanged: true })];
    let lim = Limits {
        max_wall_s: if args.thorough() { 900.0 } else { 25.0 },
        ..Default::default()
    };
    let ex = run_models(&rep, args, models, &lim).unwrap_or(false);
    if args.opt("--replay").is_none() {
        // failing-call menus on start documents
        let mut docs: Vec<(String, Automerge)> = vec![];
        for b in ["B1", "B2"] {
            docs.push((b.to_string(), base(b, enc).fork().with_actor(actor(0x10))));
        }
        // a document holding an orphan in its queue
        {
            let mut src = base("B1", enc).fork().with_actor(actor(0x90));
            let op = crate::alphabet::Op::Put(crate::alphabet::Role::Root, crate::alphabet::Key::K("a"), crate::alphabet::Val::Int(5));
            let _ = edit_commit(&mut src, &op);
            let _ = edit_commit(&mut src, &crate::alphabet::Op::Put(crate::alphabet::Role::Root, crate::alphabet::Key::K("a"), crate::alphabet::Val::Int(6)));
            let last = src.get_last_local_change().unwrap();
            let mut d = base("B1", enc).fork().with_actor(actor(0x10));
            d.apply_changes([last]).unwrap();
            docs.push(("B1+orphan".into(), d));
        }
        for (name, d) in docs.iter() {
            for (menu, r) in [("corrupt-incremental", corrupt_menu(d, &rep)), ("rejected-ops", rejected_ops_menu(d, &rep))] {
                if let Err(v) = r {
                    rep.violation(v.with_case(serde_json::json!({"explorer": "menu", "doc": name, "menu": menu})));
                }
            }
        }
        rep.count("evaluations", rep.get_count("failing_calls_tried"));
    }
    rep.finish(
        "(1) explicit-state BFS over three replicas two of which share an actor id: every delivery (apply_changes, load_incremental, sync message, reversed 2-change batch) and merge that returns Err must leave reads, missing deps and the retained-orphan save bytes (the pending queue) byte-identical; (2) on documents B1, B2 and B1 holding a queued orphan: load_incremental of every single-bit corruption and every truncation of a new change / two changes / a save, plus garbage and valid-prefix+corrupt-suffix inputs: when Err, the document snapshot is identical and a follow-up edit yields byte-identical change bytes to an untouched clone; (3) a menu of rejected transaction calls (unknown object, wrong key kind, index len / len+1 / usize::MAX, increment of non-counter, splice/mark on non-text, negative delete past 0), alone and after a valid op in the same transaction: pending_ops and reads inside the transaction unchanged, snapshot unchanged after rollback",
        &["snapshot = public reads + save_with_options{retain_orphans} bytes + get_missing_deps"],
        ex,
    )
}
