//! C20 / C21 / C22 — the sync protocol explorers.

use super::{new_report, run_models, Args};
use crate::explore::Limits;
use crate::syncmc::{start_docs, SWorld, SyncModel, START_KINDS};

fn model(label: &str, n: usize, links: &[(usize, usize)], kinds: &[&str], f: impl Fn(&mut SWorld)) -> (String, SyncModel) {
    let mut starts = vec![];
    for k in kinds {
        let mut w = SWorld::new(start_docs(k, n), links);
        f(&mut w);
        starts.push((k.to_string(), w));
    }
    (
        label.to_string(),
        SyncModel {
            label: label.to_string(),
            starts,
            rounds: 10,
            check_completion: true,
        },
    )
}

pub fn run_c20(args: &Args) -> i32 {
    let rep = new_report("C20", args, "model_checking");
    let mut models = vec![];
    if args.thorough() {
        models.push(model("sync2[edits=2,2 fp=2]", 2, &[(0, 1)], START_KINDS, |w| {
            w.edits = vec![2, 2];
            w.fps = 2;
        }));
    } else {
        models.push(model("sync2[edits=1,1 fp=1]", 2, &[(0, 1)], START_KINDS, |w| {
            w.edits = vec![1, 1];
            w.fps = 1;
        }));
    }
    // the sync-reset path needs a queued third-party change and two false positives at once
    models.push(model("sync2[third-party orphan, fp=2]", 2, &[(0, 1)], &["third-party-orphan"], |w| {
        w.edits = vec![0, 0];
        w.fps = 2;
        // false positives only on the changes of the two outside actors (o / d and r)
        w.fp_actors = vec![0x70, 0x7f];
        // one message per direction at a time (the interleavings of longer queues are explored by the
        // other models)
        w.max_in_flight = 1;
    }));
    let lim = Limits {
        max_wall_s: if args.thorough() { 1700.0 } else { 50.0 },
        ..Default::default()
    };
    let ex = run_models(&rep, args, models, &lim).unwrap_or(false);
    rep.finish(
        "explicit-state BFS over two real peers (doc + sync::State each), two FIFO channels of encoded messages (every message passes Message::encode/decode); actions: generate, deliver, local edit, generate under one injected Bloom false positive (hook) for each hash the other side lacks; start worlds: empty/empty, history vs empty, common base, diverged, one ahead, orphan in queue, and (with two false positives) a queued third-party change whose parent only the other peer has plus a separate root; frontier run to exhaustion (budgets bound the space); oracle in every state: a fair completion (deliver all, all generate, repeat) goes quiet within 10 rounds with equal heads and equal reads, and a second completion produces nothing; no receive returns Err",
        &["the hook only turns a negative Bloom answer into a positive one, for non-empty filters", "reliable in-order links (C21 covers drops)"],
        ex,
    )
}

pub fn run_c21(args: &Args) -> i32 {
    let rep = new_report("C21", args, "model_checking");
    let mut models = vec![];
    let line = [(0usize, 1usize), (1, 2)];
    let tri = [(0usize, 1usize), (1, 2), (0, 2)];
    if args.thorough() {
        // (no restore action: a peer whose DOCUMENT goes back to an older snapshot is not part of C21's
        // statement, which is about connections, lost messages and fresh / persisted sync states)
        models.push(model("sync2[drops=2 edits=1,1 fp=1]", 2, &[(0, 1)], START_KINDS, |w| {
            w.edits = vec![1, 1];
            w.drops = 2;
            w.fps = 1;
            w.restores = 0;
        }));
        models.push(model("sync3-line[drops=1 edit=1]", 3, &line, &["diverged", "one-ahead", "orphan"], |w| {
            w.edits = vec![1, 0, 0];
            w.drops = 1;
        }));
        models.push(model("sync3-triangle[drops=1 cut=1]", 3, &tri, &["one-ahead", "diverged"], |w| {
            w.drops = 1;
            w.cuts = 1;
        }));
    } else {
        models.push(model("sync3-line[drops=1]", 3, &line, &["one-ahead"], |w| {
            w.drops = 1;
        }));
        models.push(model("sync2[drops=2 edit=1]", 2, &[(0, 1)], &["diverged", "one-ahead", "orphan", "one-has-history"], |w| {
            w.drops = 2;
            w.edits = vec![1, 0];
        }));
    }
    let lim = Limits {
        max_wall_s: if args.thorough() { 1700.0 } else { 50.0 },
        ..Default::default()
    };
    let ex = run_models(&rep, args, models, &lim).unwrap_or(false);
    rep.finish(
        "explicit-state BFS over three real peers in line and triangle topologies (and two peers with two drops): actions generate / deliver / edit / drop(i,j) = both channels cleared (in-flight loss) and both ends reconnect with State::new() or State::decode(State::encode(old)) / cut(i,j) = link removed for good / injected false positive (thorough); oracle in every state: fair completion over the current links goes quiet within 10 rounds and every connected component has equal heads and reads; nobody is left waiting (second completion is silent)",
        &["drop = immediate reconnect; permanently cut links partition the network and components are judged separately"],
        ex,
    )
}

pub fn run_c22(args: &Args) -> i32 {
    let rep = new_report("C22", args, "model_checking");
    let mut models = vec![];
    if args.thorough() {
        models.push(model("sync2-ro[toggles=2 edits=1,1]", 2, &[(0, 1)], &["diverged", "one-ahead", "one-has-history", "orphan"], |w| {
            w.toggles = 2;
            w.edits = vec![1, 1];
        }));
        models.push(model("sync3-line-ro[toggles=1 edits=1,0,1]", 3, &[(0, 1), (1, 2)], &["diverged"], |w| {
            w.toggles = 1;
            w.edits = vec![1, 0, 1];
        }));
    } else {
        models.push(model("sync2-ro[toggles=1 edits=1,1]", 2, &[(0, 1)], &["diverged", "one-ahead", "one-has-history"], |w| {
            w.toggles = 1;
            w.edits = vec![1, 1];
        }));
        // on and off again within one session (two toggles), with one edit on the other side
        models.push(model("sync2-ro[toggles=2 edits=0,1]", 2, &[(0, 1)], &["common-base", "one-ahead"], |w| {
            w.toggles = 2;
            w.edits = vec![0, 1];
            w.max_in_flight = 1;
        }));
        // start read-only on either side
        for side in [0usize, 1] {
            models.push(model(&format!("sync2-ro[start ro={} toggles=1 edit=1]", side), 2, &[(0, 1)], &["diverged", "one-ahead"], move |w| {
                w.states.get_mut(&(side, 1 - side)).unwrap().set_read_only(true);
                w.toggles = 1;
                w.edits = vec![1, 0];
            }));
        }
    }
    let lim = Limits {
        max_wall_s: if args.thorough() { 1700.0 } else { 50.0 },
        ..Default::default()
    };
    let ex = run_models(&rep, args, models, &lim).unwrap_or(false);
    rep.finish(
        "explicit-state BFS over two (and three) real peers with read_only set on either side and toggle(i,j) = State::set_read_only flipped at any point, interleaved with generate / deliver / edits; edge oracle: a delivery to a peer whose state is read-only leaves its save() bytes unchanged; state oracle: fair completion goes quiet, every writable peer linked to a read-only peer holds all of the read-only peer's heads, and after switching every read-only state back to read-write a further fair completion ends with equal heads and reads",
        &["read_only is per sync::State (per link)"],
        ex,
    )
}
