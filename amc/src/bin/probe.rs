use amc::world::*;
use amc::alphabet::*;
use automerge::{ReadDoc, TextEncoding};
fn main(){ second();
    let enc = TextEncoding::UnicodeCodePoint;
    let b = base("B1", enc);
    let mut r0 = b.fork().with_actor(actor(0x10));
    let mut r1 = b.fork().with_actor(actor(0x90));
    edit_commit(&mut r0, &Op::Put(Role::T, Key::I(Pos::Mid), Val::Str("w")));
    edit_commit(&mut r0, &Op::Splice(Role::T, Pos::Start, 0, "a"));
    edit_commit(&mut r1, &Op::Put(Role::T, Key::I(Pos::Mid), Val::Str("w")));
    let h1 = r0.get_heads();
    let mut m = r0.clone(); m.merge(&mut r1.clone()).unwrap();
    let t = resolve(&m, Role::T).unwrap().0;
    println!("text {:?} len {}", m.text(&t), m.length(&t));
    for i in 0..m.length(&t)+1 { println!("{} {:?}", i, m.get_all(&t, i).map(|v| v.iter().map(|(v,id)| format!("{:?}@{}", v, id)).collect::<Vec<_>>())); }
    println!("at h1: text {:?} len {}", m.text_at(&t, &h1), m.length_at(&t, &h1));
    let o = amc::obs::observe(&m, None, &[]);
    println!("{:?}", o.objs.get(&t.to_string()));
    let f = m.fork();
    println!("fork text {:?} len {}", f.text(&t), f.length(&t));
    let l = automerge::Automerge::load(&m.save()).unwrap();
    println!("load text {:?} len {}", l.text(&t), l.length(&t));
}
#[allow(dead_code)]
pub fn second(){
    let enc = TextEncoding::UnicodeCodePoint;
    let b = base("B1", enc);
    let mut r0 = b.fork().with_actor(actor(0x10));
    let mut r1 = b.fork().with_actor(actor(0x90));
    edit_commit(&mut r0, &Op::Put(Role::T, Key::I(Pos::Mid), Val::Str("w")));
    let ha = r0.get_heads();
    edit_commit(&mut r0, &Op::Splice(Role::T, Pos::Start, 0, "a"));
    edit_commit(&mut r1, &Op::Put(Role::T, Key::I(Pos::Mid), Val::Str("w")));
    let hb = r1.get_heads();
    let mut m = r0.clone(); m.merge(&mut r1.clone()).unwrap();
    let t = resolve(&m, Role::T).unwrap().0;
    let mut h2 = ha.clone(); h2.extend(hb);
    println!("AT H2: text {:?} len {}", m.text_at(&t, &h2), m.length_at(&t, &h2));
    for i in 0..5 { println!("{} {:?}", i, m.get_all_at(&t, i, &h2).map(|v| v.iter().map(|(v,id)| format!("{:?}@{}", v, id)).collect::<Vec<_>>())); }
    let f = m.fork_at(&h2).unwrap();
    println!("fork_at: text {:?} len {}", f.text(&t), f.length(&t));
    println!("spans_at {:?}", m.spans_at(&t, &h2).unwrap().collect::<Vec<_>>());
}
