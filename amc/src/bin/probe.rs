use amc::world::*;
use amc::alphabet::*;
use amc::util::guard;
use amc::graph::Graph;
use automerge::{AutoCommit, ReadDoc, TextEncoding, LoadOptions, PatchLog};
fn main(){
    let enc = TextEncoding::UnicodeCodePoint;
    let b = base("B2", enc);
    let base_hashes: std::collections::BTreeSet<_> = b.get_changes(&[]).iter().map(|c| c.hash()).collect();
    let mut d = b.fork().with_actor(actor(0x10));
    edit_commit(&mut d, &Op::Put(Role::Root, Key::K("a"), Val::Int(1)));
    let g = Graph::new(d.get_changes(&[]));
    for h in g.head_sets_above(&base_hashes, 4) {
        for op in theme("map") {
            let r = guard(|| {
                let mut ac = AutoCommit::load_with_options(&d.save(), LoadOptions::new().text_encoding(enc)).unwrap().with_actor(actor(0x10));
                ac.isolate(&h);
                let r = apply(&mut ac, op);
                matches!(r, Applied::Done)
            });
            if let Err(p) = r { println!("isolate({:?}) {:?}: PANIC {} {}", amc::obs::hstr(&h), op, p.location, p.message); }
            let r = guard(|| {
                let mut x = d.clone();
                let mut tx = x.transaction_at(PatchLog::inactive(), &h).unwrap();
                let r = apply(&mut tx, op);
                tx.rollback();
                matches!(r, Applied::Done)
            });
            if let Err(p) = r { println!("transaction_at({:?}) {:?}: PANIC {} {}", amc::obs::hstr(&h), op, p.location, p.message); }
        }
    }
    println!("heads {:?}", amc::obs::hstr(&d.get_heads()));
    for c in d.get_changes(&[]) { println!("{} {} seq {} deps {:?}", c.hash(), c.actor_id(), c.seq(), amc::obs::hstr(c.deps())); }
}
