use amc::util::guard;
use amc::world::actor;
use automerge::{AutoCommit, ReadDoc, ROOT};
use automerge::transaction::{Transactable, CommitOptions};

fn main(){
    let mut b = AutoCommit::new().with_actor(actor(0x50));
    b.put(ROOT, "base", 1).unwrap(); b.commit();
    let mut d0 = b.fork().with_actor(actor(0x10));
    let mut d1 = b.fork().with_actor(actor(0x90));
    d0.put(ROOT,"k",1).unwrap(); let e1 = d0.commit().unwrap();
    let _e2 = d0.empty_change(CommitOptions::default());
    d0.isolate(&[e1]);
    d0.put(ROOT,"k",2).unwrap(); let e3 = d0.commit();
    println!("e3 {:?}", e3);
    for c in d0.get_changes(&[]) { println!("{} actor {} seq {} start {} deps {:?}", c.hash(), c.actor_id(), c.seq(), c.start_op(), c.deps()); }
    let r = guard(|| { let mut x = d1.clone(); x.merge(&mut d0.clone()).map(|_| ()) });
    println!("merge: {:?}", r.map_err(|p| format!("{} {}", p.location, p.message)));
    let r = guard(|| { let s = d0.clone().save(); automerge::Automerge::load(&s).map(|_| ()) });
    println!("save/load: {:?}", r.map_err(|p| format!("{} {}", p.location, p.message)));
    let r = guard(|| { let mut x = d1.clone(); x.apply_changes(d0.clone().get_changes(&[])).map(|_| ()) });
    println!("apply: {:?}", r.map_err(|p| format!("{} {}", p.location, p.message)));
}
