use amc::world::*;
use amc::alphabet::*;
use automerge::{AutoCommit, ReadDoc, TextEncoding, LoadOptions, ChangeHash};
use automerge::transaction::Transactable;
fn main(){
    let enc = TextEncoding::UnicodeCodePoint;
    let b = base("B2", enc);
    for with_rollback in [false, true] {
        let mut d = AutoCommit::load_with_options(&b.save(), LoadOptions::new().text_encoding(enc)).unwrap().with_actor(actor(0x10));
        let t = resolve(&d, Role::T).unwrap().0;
        if with_rollback { d.splice_text(&t, 0, 0, "a").unwrap(); d.rollback(); }
        let heads: Vec<ChangeHash> = b.get_changes(&[])[0..1].iter().map(|c| c.hash()).collect();
        d.isolate(&heads);
        d.splice_text(&t, 1, 0, "q").unwrap();
        let h = d.commit();
        let c = d.get_change_by_hash(&h.unwrap()).unwrap();
        println!("rollback={} -> change actor {} seq {} deps {:?}", with_rollback, c.actor_id(), c.seq(), c.deps().len());
        let actors: Vec<String> = d.get_changes(&[]).iter().map(|c| c.actor_id().to_string()).collect();
        println!("   actors in history: {:?}", actors);
    }
}
