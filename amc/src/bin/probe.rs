use automerge::{AutoCommit, ReadDoc, TextEncoding, ObjType, ROOT};
use automerge::transaction::Transactable;
use automerge::marks::{Mark, ExpandMark};
fn main(){
    for enc in [TextEncoding::UnicodeCodePoint, TextEncoding::Utf8CodeUnit, TextEncoding::Utf16CodeUnit] {
        let mut d = AutoCommit::new_with_encoding(enc);
        let t = d.put_object(ROOT, "t", ObjType::Text).unwrap();
        d.splice_text(&t, 0, 0, "😀b").unwrap();
        let len = d.length(&t);
        d.mark(&t, Mark::new("bold".into(), true, len-1, len), ExpandMark::None).unwrap();
        println!("{:?} len {} marks {:?}", enc, len, d.marks(&t).unwrap().iter().map(|m| (m.start, m.end)).collect::<Vec<_>>());
        for i in 0..len { println!("   get_marks({}) = {:?}  get({}) = {:?}", i, d.get_marks(&t, i, None).unwrap().iter().map(|(k,_)| k.to_string()).collect::<Vec<_>>(), i, d.get(&t, i).unwrap().map(|v| format!("{:?}", v.0))); }
        let h = d.get_heads();
        for i in 0..len { println!("   get_marks_at({}) = {:?}", i, d.get_marks(&t, i, Some(&h)).unwrap().iter().map(|(k,_)| k.to_string()).collect::<Vec<_>>()); }
    }
}
