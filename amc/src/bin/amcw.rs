//! Worker process of the untrusted-input engine: counting allocator, address-space limit,
//! journal of the case in flight.
#[global_allocator]
static GLOBAL: amc::alloc_count::Counting = amc::alloc_count::Counting;

fn main() {
    amc::alloc_count::ENABLED.store(1, std::sync::atomic::Ordering::Relaxed);
    let argv: Vec<String> = std::env::args().collect();
    std::process::exit(amc::bytes::worker_main(&argv[1..]));
}
