//! Worker process of the untrusted-input engine: counting allocator, address-space limit,
//! journal of the case in flight.
#[global_allocator]
static GLOBAL: amc::alloc_count::Counting = amc::alloc_count::Counting;

fn main() {
    amc::alloc_count::ENABLED.store(1, std::sync::atomic::Ordering::Relaxed);
    let argv: Vec<String> = std::env::args().collect();
    if argv.get(1).map(|s| s.as_str()) == Some("replay") {
        // amcw replay <artefact.json>: the same case with the counting allocator installed
        amc::util::install_panic_hook();
        if std::env::var("VERIF_BT").is_ok() {
            amc::alloc_count::TRACE_BIG.store(1, std::sync::atomic::Ordering::Relaxed);
        }
        let j = amc::report::read_replay(std::path::Path::new(&argv[2]));
        let rc = amc::bytes::replay_case(
            j["property"].as_str().unwrap_or("C15"),
            j["tier"].as_str().unwrap_or("quick"),
            j["case"]["hex"].as_str().unwrap_or(""),
            j["case"]["target"].as_str().unwrap_or("Load"),
        );
        std::process::exit(rc);
    }
    std::process::exit(amc::bytes::worker_main(&argv[1..]));
}
