use amc::props::{run, Args};

fn main() {
    let argv: Vec<String> = std::env::args().collect();
    if argv.len() < 2 {
        eprintln!("usage: amc <Cnn> [quick|thorough] [options] | amc replay <file>");
        std::process::exit(2);
    }
    amc::util::install_panic_hook();
    if argv[1] == "replay" {
        let j = amc::report::read_replay(std::path::Path::new(&argv[2]));
        let prop = j["property"].as_str().unwrap().to_string();
        let tier = j["tier"].as_str().unwrap_or("quick").to_string();
        let mut rest = vec!["--replay".to_string(), argv[2].clone()];
        rest.extend(argv[3..].iter().cloned());
        std::process::exit(run(&prop, &Args { tier, rest }));
    }
    let prop = argv[1].to_uppercase();
    let tier = std::env::var("VERIF_TIER").ok().or_else(|| argv.get(2).cloned()).unwrap_or_else(|| "quick".into());
    let tier = if argv.len() > 2 && (argv[2] == "quick" || argv[2] == "thorough") { argv[2].clone() } else { tier };
    let rest = if argv.len() > 3 { argv[3..].to_vec() } else { vec![] };
    std::process::exit(run(&prop, &Args { tier, rest }));
}
