//! Independent reference: an op-based CRDT interpreter over the *set* of decoded changes.
//!
//! Knows nothing about columns, indexes, batches or queues. Input is `Change::decode()`
//! (the public `ExpandedChange`). Semantics follow the statement of C02/C25:
//!  * every map key / list element is a multi-value register holding the value ops that are not
//!    named as predecessor by a later delete, put, make, or by an increment when they are not
//!    counters; `get_all` order is ascending (counter, actor), the greatest id wins;
//!  * a counter reads as its initial value plus every increment naming it as predecessor;
//!  * sequences are RGA trees: children of a reference element ordered by descending id, read
//!    depth-first; an element is visible iff its register is non-empty;
//!  * marks: begin/end anchors are elements of the sequence; a unit is covered by a mark iff its
//!    begin precedes and its end follows it; per name the highest-id covering mark decides, a null
//!    value means unmarked.

use crate::obs::{render_objtype, render_scalar, ONode, OSpan, OText, OVal, Obs};
use automerge::legacy as L;
use automerge::{ExpandedChange, ObjType, ScalarValue, TextEncoding};
use std::collections::{BTreeMap, BTreeSet, HashMap};
use unicode_segmentation::UnicodeSegmentation;

#[derive(Clone, Debug, PartialEq, Eq, Hash, PartialOrd, Ord)]
pub struct Id {
    pub ctr: u64,
    pub actor: Vec<u8>,
}

impl Id {
    pub fn render(&self) -> String {
        format!("{}@{}", self.ctr, hex::encode(&self.actor))
    }
    fn from_legacy(o: &L::OpId) -> Id {
        Id {
            ctr: o.0,
            actor: o.1.to_bytes().to_vec(),
        }
    }
}

#[derive(Clone, Debug)]
enum Act {
    Make(ObjType),
    Put(ScalarValue),
    Delete,
    Inc(i64),
    MarkBegin { name: String, value: ScalarValue, expand: bool },
    MarkEnd { expand: bool },
}

#[derive(Clone, Debug)]
struct ROp {
    id: Id,
    obj: Option<Id>, // None = root
    key: RKey,
    insert: bool,
    act: Act,
    pred: Vec<Id>,
}

#[derive(Clone, Debug, PartialEq, Eq, Hash, PartialOrd, Ord)]
enum RKey {
    Map(String),
    Head,
    Elem(Id),
}

pub fn width(enc: TextEncoding, s: &str) -> usize {
    match enc {
        TextEncoding::UnicodeCodePoint => s.chars().count(),
        TextEncoding::Utf8CodeUnit => s.len(),
        TextEncoding::Utf16CodeUnit => s.encode_utf16().count(),
        TextEncoding::GraphemeCluster => s.graphemes(true).count(),
    }
}

pub struct RefDoc {
    ops: Vec<ROp>,
    by_id: HashMap<Id, usize>,
    /// ops naming X as predecessor
    succ: HashMap<Id, Vec<usize>>,
    pub unsupported: Option<String>,
    enc: TextEncoding,
}

#[derive(Clone, Debug)]
pub struct RElem {
    pub id: Id,
    /// visible values, ascending id; empty = invisible
    pub vals: Vec<(Id, String)>,
    pub is_mark: bool,
    /// string of the winner ("\u{fffc}" for non-strings)
    pub s: String,
}

impl RefDoc {
    pub fn new(changes: &[ExpandedChange], enc: TextEncoding) -> RefDoc {
        let mut ops = vec![];
        let mut unsupported = None;
        for c in changes {
            let actor = c.actor_id.to_bytes().to_vec();
            for (i, op) in c.operations.iter().enumerate() {
                let id = Id {
                    ctr: c.start_op.get() + i as u64,
                    actor: actor.clone(),
                };
                let obj = match &op.obj {
                    L::ObjectId::Root => None,
                    L::ObjectId::Id(o) => Some(Id::from_legacy(o)),
                };
                let key = match &op.key {
                    L::Key::Map(s) => RKey::Map(s.to_string()),
                    L::Key::Seq(L::ElementId::Head) => RKey::Head,
                    L::Key::Seq(L::ElementId::Id(o)) => RKey::Elem(Id::from_legacy(o)),
                };
                let act = match &op.action {
                    L::OpType::Make(t) => Act::Make(*t),
                    L::OpType::Put(v) => Act::Put(v.clone()),
                    L::OpType::Delete => Act::Delete,
                    L::OpType::Increment(n) => Act::Inc(*n),
                    L::OpType::MarkBegin(m) => Act::MarkBegin {
                        name: m.name.to_string(),
                        value: m.value.clone(),
                        expand: m.expand,
                    },
                    L::OpType::MarkEnd(e) => Act::MarkEnd { expand: *e },
                };
                let pred: Vec<Id> = op.pred.iter().map(Id::from_legacy).collect();
                ops.push(ROp {
                    id,
                    obj,
                    key,
                    insert: op.insert,
                    act,
                    pred,
                });
            }
        }
        let mut by_id = HashMap::new();
        for (i, o) in ops.iter().enumerate() {
            if by_id.insert(o.id.clone(), i).is_some() {
                unsupported = Some(format!("duplicate op id {}", o.id.render()));
            }
        }
        let mut succ: HashMap<Id, Vec<usize>> = HashMap::new();
        for (i, o) in ops.iter().enumerate() {
            for p in o.pred.iter() {
                succ.entry(p.clone()).or_default().push(i);
                if let Some(&pi) = by_id.get(p) {
                    if matches!(ops[pi].act, Act::MarkBegin { .. } | Act::MarkEnd { .. }) {
                        unsupported = Some("an op names a mark anchor as predecessor".to_string());
                    }
                }
            }
        }
        RefDoc {
            ops,
            by_id,
            succ,
            unsupported,
            enc,
        }
    }

    fn is_counter(&self, i: usize) -> bool {
        matches!(self.ops[i].act, Act::Put(ScalarValue::Counter(_)))
    }

    fn is_value(&self, i: usize) -> bool {
        matches!(self.ops[i].act, Act::Put(_) | Act::Make(_))
    }

    /// a value op is visible iff no later delete/put/make names it, and no increment names it
    /// unless it is a counter
    fn visible(&self, i: usize) -> bool {
        if !self.is_value(i) {
            return false;
        }
        if let Some(ss) = self.succ.get(&self.ops[i].id) {
            for &s in ss {
                match self.ops[s].act {
                    Act::Inc(_) => {
                        if !self.is_counter(i) {
                            return false;
                        }
                    }
                    _ => return false,
                }
            }
        }
        true
    }

    fn render_val(&self, i: usize) -> String {
        match &self.ops[i].act {
            Act::Make(t) => render_objtype(*t).to_string(),
            Act::Put(ScalarValue::Counter(c)) => {
                let mut v = i64::from(c);
                if let Some(ss) = self.succ.get(&self.ops[i].id) {
                    for &s in ss {
                        if let Act::Inc(n) = self.ops[s].act {
                            v = v.wrapping_add(n);
                        }
                    }
                }
                format!("Counter({})", v)
            }
            Act::Put(v) => render_scalar(v),
            _ => unreachable!(),
        }
    }

    fn str_of(&self, i: usize) -> String {
        match &self.ops[i].act {
            Act::Put(ScalarValue::Str(s)) => s.to_string(),
            _ => "\u{fffc}".to_string(),
        }
    }

    /// map entries of an object: key -> visible values ascending
    pub fn map_entries(&self, obj: &Option<Id>) -> BTreeMap<String, Vec<(Id, String, usize)>> {
        let mut m: BTreeMap<String, Vec<(Id, String, usize)>> = BTreeMap::new();
        for (i, o) in self.ops.iter().enumerate() {
            if &o.obj != obj {
                continue;
            }
            if let RKey::Map(k) = &o.key {
                if self.visible(i) {
                    m.entry(k.clone())
                        .or_default()
                        .push((o.id.clone(), self.render_val(i), i));
                }
            }
        }
        for v in m.values_mut() {
            v.sort_by(|a, b| a.0.cmp(&b.0));
        }
        m
    }

    /// all elements (visible or not, marks included) of a sequence object in RGA order
    pub fn seq_elems(&self, obj: &Option<Id>) -> Vec<(usize, Vec<usize>)> {
        // children by reference element
        let mut children: HashMap<RKey, Vec<usize>> = HashMap::new();
        let mut updates: HashMap<Id, Vec<usize>> = HashMap::new();
        for (i, o) in self.ops.iter().enumerate() {
            if &o.obj != obj {
                continue;
            }
            match (&o.key, o.insert) {
                (RKey::Map(_), _) => {}
                (k, true) => children.entry(k.clone()).or_default().push(i),
                (RKey::Elem(e), false) => updates.entry(e.clone()).or_default().push(i),
                (RKey::Head, false) => {}
            }
        }
        for v in children.values_mut() {
            v.sort_by(|a, b| self.ops[*b].id.cmp(&self.ops[*a].id));
        }
        let mut out = vec![];
        // iterative DFS
        let mut stack: Vec<usize> = children.get(&RKey::Head).cloned().unwrap_or_default();
        stack.reverse();
        while let Some(i) = stack.pop() {
            let eid = self.ops[i].id.clone();
            let mut members = vec![i];
            if let Some(u) = updates.get(&eid) {
                members.extend(u.iter().cloned());
            }
            out.push((i, members));
            if let Some(ch) = children.get(&RKey::Elem(eid)) {
                for &c in ch.iter().rev() {
                    stack.push(c);
                }
            }
        }
        out
    }

    pub fn elems(&self, obj: &Option<Id>) -> Vec<RElem> {
        self.seq_elems(obj)
            .into_iter()
            .map(|(i, members)| {
                let is_mark = matches!(self.ops[i].act, Act::MarkBegin { .. } | Act::MarkEnd { .. });
                let mut vals: Vec<(Id, String, usize)> = members
                    .iter()
                    .filter(|&&m| self.visible(m))
                    .map(|&m| (self.ops[m].id.clone(), self.render_val(m), m))
                    .collect();
                vals.sort_by(|a, b| a.0.cmp(&b.0));
                let s = vals.last().map(|w| self.str_of(w.2)).unwrap_or_default();
                RElem {
                    id: self.ops[i].id.clone(),
                    vals: vals.into_iter().map(|(a, b, _)| (a, b)).collect(),
                    is_mark,
                    s,
                }
            })
            .collect()
    }

    /// per visible element: the mark set covering it
    pub fn elem_marks(&self, obj: &Option<Id>) -> Vec<(RElem, BTreeMap<String, String>)> {
        let mut active: BTreeMap<Id, (String, ScalarValue)> = BTreeMap::new();
        let mut out = vec![];
        for (i, _) in self.seq_elems(obj) {
            match &self.ops[i].act {
                Act::MarkBegin { name, value, .. } => {
                    active.insert(self.ops[i].id.clone(), (name.clone(), value.clone()));
                }
                Act::MarkEnd { .. } => {
                    let id = &self.ops[i].id;
                    let b = Id {
                        ctr: id.ctr - 1,
                        actor: id.actor.clone(),
                    };
                    active.remove(&b);
                }
                _ => {}
            }
        }
        // second pass with the element structure (the first pass only validated pairing)
        active.clear();
        let elems = self.elems(obj);
        for e in elems {
            if e.is_mark {
                let i = self.by_id[&e.id];
                match &self.ops[i].act {
                    Act::MarkBegin { name, value, .. } => {
                        active.insert(e.id.clone(), (name.clone(), value.clone()));
                    }
                    Act::MarkEnd { .. } => {
                        let b = Id {
                            ctr: e.id.ctr - 1,
                            actor: e.id.actor.clone(),
                        };
                        active.remove(&b);
                    }
                    _ => {}
                }
                continue;
            }
            if e.vals.is_empty() {
                continue;
            }
            let mut cur: BTreeMap<String, String> = BTreeMap::new();
            // ascending id: later (higher) entries overwrite
            for (_, (name, value)) in active.iter() {
                if matches!(value, ScalarValue::Null) {
                    cur.remove(name);
                } else {
                    cur.insert(name.clone(), render_scalar(value));
                }
            }
            out.push((e, cur));
        }
        out
    }

    fn obj_type(&self, id: &Id) -> Option<ObjType> {
        self.by_id.get(id).and_then(|&i| match self.ops[i].act {
            Act::Make(t) => Some(t),
            _ => None,
        })
    }

    /// The observation the reference predicts (fields the reference does not define are filled
    /// from `shape_from`, see `compare`).
    pub fn observe(&self, heads: Vec<String>) -> RefObs {
        let mut objs = BTreeMap::new();
        let mut todo: Vec<(Option<Id>, ObjType)> = vec![(None, ObjType::Map)];
        let mut seen = BTreeSet::new();
        while let Some((id, ty)) = todo.pop() {
            let name = id.as_ref().map(|i| i.render()).unwrap_or_else(|| "_root".to_string());
            if !seen.insert(name.clone()) {
                continue;
            }
            let mut note = |vals: &Vec<(Id, String)>, todo: &mut Vec<(Option<Id>, ObjType)>| {
                for (vid, v) in vals {
                    if v.starts_with('<') {
                        if let Some(t) = self.obj_type(vid) {
                            todo.push((Some(vid.clone()), t));
                        }
                    }
                }
            };
            match ty {
                ObjType::Map | ObjType::Table => {
                    let mut m = BTreeMap::new();
                    for (k, vals) in self.map_entries(&id) {
                        let vals: Vec<(Id, String)> = vals.into_iter().map(|(a, b, _)| (a, b)).collect();
                        note(&vals, &mut todo);
                        m.insert(
                            k,
                            vals.into_iter().map(|(i, v)| OVal { id: i.render(), v }).collect::<Vec<_>>(),
                        );
                    }
                    objs.insert(name, if ty == ObjType::Map { RNode::Map(m) } else { RNode::Table(m) });
                }
                ObjType::List => {
                    let mut l = vec![];
                    for e in self.elems(&id) {
                        if e.is_mark || e.vals.is_empty() {
                            continue;
                        }
                        note(&e.vals, &mut todo);
                        l.push(e.vals.into_iter().map(|(i, v)| OVal { id: i.render(), v }).collect::<Vec<_>>());
                    }
                    objs.insert(name, RNode::List(l));
                }
                ObjType::Text => {
                    let mut elems = vec![];
                    let mut text = String::new();
                    let mut unit_marks = vec![];
                    let mut idx = 0usize;
                    for (e, marks) in self.elem_marks(&id) {
                        note(&e.vals, &mut todo);
                        let w = width(self.enc, &e.s);
                        elems.push((
                            idx,
                            e.vals.iter().map(|(i, v)| OVal { id: i.render(), v: v.clone() }).collect::<Vec<_>>(),
                        ));
                        text.push_str(&e.s);
                        for _ in 0..w {
                            unit_marks.push(marks.clone());
                        }
                        idx += w;
                    }
                    objs.insert(
                        name,
                        RNode::Text {
                            elems,
                            text,
                            len: idx,
                            unit_marks,
                        },
                    );
                }
            }
        }
        RefObs { heads, objs }
    }
}

#[derive(Clone, Debug, PartialEq, Eq)]
pub enum RNode {
    Map(BTreeMap<String, Vec<OVal>>),
    Table(BTreeMap<String, Vec<OVal>>),
    List(Vec<Vec<OVal>>),
    Text {
        elems: Vec<(usize, Vec<OVal>)>,
        text: String,
        len: usize,
        unit_marks: Vec<BTreeMap<String, String>>,
    },
}

#[derive(Clone, Debug, PartialEq, Eq)]
pub struct RefObs {
    pub heads: Vec<String>,
    pub objs: BTreeMap<String, RNode>,
}

/// per-unit mark sets derived from the raw `marks()` list
pub fn units_from_marks(len: usize, marks: &[(usize, usize, String, String)]) -> Result<Vec<BTreeMap<String, String>>, String> {
    let mut u = vec![BTreeMap::new(); len];
    for (s, e, n, v) in marks {
        if s > e || *e > len {
            return Err(format!("mark {:?} [{},{}) outside text of length {}", n, s, e, len));
        }
        for slot in u.iter_mut().take(*e).skip(*s) {
            if let Some(old) = slot.insert(n.clone(), v.clone()) {
                return Err(format!("marks() reports two overlapping marks named {:?} ({} and {})", n, old, v));
            }
        }
    }
    Ok(u)
}

/// (concatenated text, per-unit marks) derived from spans
pub fn units_from_spans(enc: TextEncoding, spans: &[OSpan]) -> (String, Vec<BTreeMap<String, String>>) {
    let mut text = String::new();
    let mut u = vec![];
    for s in spans {
        match s {
            OSpan::Text(t, m) => {
                text.push_str(t);
                for _ in 0..width(enc, t) {
                    u.push(m.clone());
                }
            }
            OSpan::Block(_) => {
                text.push('\u{fffc}');
                for _ in 0..width(enc, "\u{fffc}") {
                    u.push(BTreeMap::new());
                }
            }
        }
    }
    (text, u)
}

pub struct CompareOpts {
    /// compare per-unit marks (get_marks / marks() / spans) with the reference
    pub marks: bool,
}

/// Compare what the document shows with what the reference predicts. Returns the first difference.
pub fn compare(obs: &Obs, r: &RefObs, enc: TextEncoding, opts: &CompareOpts) -> Option<(String, String)> {
    if obs.heads != r.heads {
        return Some(("heads".into(), format!("heads: doc {:?} ref {:?}", obs.heads, r.heads)));
    }
    for k in obs.objs.keys() {
        if !r.objs.contains_key(k) {
            return Some(("reachable-objects".into(), format!("object {} reachable in doc, not in reference", k)));
        }
    }
    for (k, rn) in r.objs.iter() {
        let Some(on) = obs.objs.get(k) else {
            return Some(("reachable-objects".into(), format!("object {} reachable in reference, not in doc", k)));
        };
        match (on, rn) {
            (ONode::Map(a), RNode::Map(b)) | (ONode::Table(a), RNode::Table(b)) => {
                if a != b {
                    let keys: BTreeSet<&String> = a.keys().chain(b.keys()).collect();
                    for key in keys {
                        if a.get(key) != b.get(key) {
                            return Some((
                                "map-register".into(),
                                format!("map {} key {:?}: doc {:?} ref {:?}", k, key, a.get(key), b.get(key)),
                            ));
                        }
                    }
                }
            }
            (ONode::List(a), RNode::List(b)) => {
                if a != b {
                    return Some(("list".into(), format!("list {}: doc {:?} ref {:?}", k, a, b)));
                }
            }
            (ONode::Text(t), RNode::Text { elems, text, len, unit_marks }) => {
                if &t.text != text {
                    return Some(("text".into(), format!("text {}: doc {:?} ref {:?}", k, t.text, text)));
                }
                if t.len != *len {
                    return Some(("text-length".into(), format!("text {} length: doc {} ref {}", k, t.len, len)));
                }
                if &t.elems != elems {
                    return Some(("text-elems".into(), format!("text {} elements: doc {:?} ref {:?}", k, t.elems, elems)));
                }
                if opts.marks {
                    if &t.unit_marks != unit_marks {
                        return Some((
                            "get_marks".into(),
                            format!("text {} get_marks per unit: doc {:?} ref {:?}", k, t.unit_marks, unit_marks),
                        ));
                    }
                    match units_from_marks(t.len, &t.marks) {
                        Err(e) => return Some(("marks()".into(), format!("text {}: {}", k, e))),
                        Ok(u) => {
                            if &u != unit_marks {
                                return Some((
                                    "marks()".into(),
                                    format!("text {} marks(): doc {:?} (units {:?}) ref {:?}", k, t.marks, u, unit_marks),
                                ));
                            }
                        }
                    }
                    let (st, su) = units_from_spans(enc, &t.spans);
                    if &st != text {
                        return Some(("spans-text".into(), format!("text {} concat(spans) {:?} != text {:?}", k, st, text)));
                    }
                    if &su != unit_marks {
                        // block markers carry no marks in spans; the reference may cover them
                        let mut same = su.len() == unit_marks.len();
                        if same {
                            let chars: Vec<char> = st.chars().collect();
                            // only element-per-unit encodings can be aligned char by char; otherwise compare loosely
                            if chars.len() == su.len() {
                                for (i, c) in chars.iter().enumerate() {
                                    if *c != '\u{fffc}' && su[i] != unit_marks[i] {
                                        same = false;
                                    }
                                }
                            } else {
                                same = false;
                                // fall back: compare only spans without blocks
                                if !st.contains('\u{fffc}') {
                                    same = &su == unit_marks;
                                } else {
                                    same = true;
                                }
                            }
                        }
                        if !same {
                            return Some((
                                "spans-marks".into(),
                                format!("text {} span marks per unit: doc {:?} ref {:?}", k, su, unit_marks),
                            ));
                        }
                    }
                }
            }
            (a, b) => {
                return Some(("object-type".into(), format!("object {}: doc {:?} ref {:?}", k, a, b)));
            }
        }
    }
    None
}

pub fn ref_of_changes(changes: &[automerge::Change], enc: TextEncoding) -> RefDoc {
    let ex: Vec<ExpandedChange> = changes.iter().map(|c| c.decode()).collect();
    RefDoc::new(&ex, enc)
}

#[allow(dead_code)]
fn _unused(_: OText) {}

impl RefDoc {
    /// true if any map key or list element of ANY object (reachable or not) has a visible string
    pub fn any_visible_string_in_maps_or_lists(&self) -> bool {
        for (i, o) in self.ops.iter().enumerate() {
            if !matches!(o.act, Act::Put(ScalarValue::Str(_))) || !self.visible(i) {
                continue;
            }
            let ty = match &o.obj {
                None => Some(ObjType::Map),
                Some(id) => self.obj_type(id),
            };
            if matches!(ty, Some(ObjType::Map) | Some(ObjType::List)) {
                return true;
            }
        }
        false
    }
}

/// one mark (a begin/end anchor pair) of a text object, positioned in the full element sequence
#[derive(Clone, Debug)]
pub struct MarkDetail {
    pub id: Id,
    pub name: String,
    pub value: ScalarValue,
    pub expand_before: bool,
    pub expand_after: bool,
    /// position of the begin anchor in the element sequence
    pub begin: usize,
    /// position of the end anchor (None: not present in this history)
    pub end: Option<usize>,
}

impl RefDoc {
    /// (positions of the visible non-mark elements in the element sequence, all marks)
    pub fn mark_details(&self, obj: &Option<Id>) -> (Vec<usize>, Vec<MarkDetail>) {
        let elems = self.elems(obj);
        let mut visible = vec![];
        let mut marks: Vec<MarkDetail> = vec![];
        for (pos, e) in elems.iter().enumerate() {
            if e.is_mark {
                let i = self.by_id[&e.id];
                match &self.ops[i].act {
                    Act::MarkBegin { name, value, expand } => marks.push(MarkDetail {
                        id: e.id.clone(),
                        name: name.clone(),
                        value: value.clone(),
                        expand_before: *expand,
                        expand_after: false,
                        begin: pos,
                        end: None,
                    }),
                    Act::MarkEnd { expand } => {
                        let b = Id { ctr: e.id.ctr - 1, actor: e.id.actor.clone() };
                        if let Some(m) = marks.iter_mut().find(|m| m.id == b) {
                            m.end = Some(pos);
                            m.expand_after = *expand;
                        }
                    }
                    _ => {}
                }
            } else if !e.vals.is_empty() {
                visible.push(pos);
            }
        }
        (visible, marks)
    }
}

/// an element of a sequence with what a cursor needs: visibility, width and its reference element
#[derive(Clone, Debug)]
pub struct SeqElem {
    pub id: Id,
    pub visible: bool,
    pub width: usize,
    pub is_mark: bool,
    /// the element this one was inserted after (None = head of the sequence)
    pub parent: Option<Id>,
}

impl RefDoc {
    pub fn seq_elements(&self, obj: &Option<Id>, is_text: bool) -> Vec<SeqElem> {
        self.elems(obj)
            .into_iter()
            .map(|e| {
                let i = self.by_id[&e.id];
                let parent = match &self.ops[i].key {
                    RKey::Elem(p) => Some(p.clone()),
                    _ => None,
                };
                let visible = !e.is_mark && !e.vals.is_empty();
                let width = if !visible {
                    0
                } else if is_text {
                    width(self.enc, &e.s)
                } else {
                    1
                };
                SeqElem { id: e.id, visible, width, is_mark: e.is_mark, parent }
            })
            .collect()
    }
}
