//! Chunk-level grammar of the storage format, written from the format documentation
//! (magic, checksum, type, LEB128 length, body) independently of the library's parser.

use crate::util::{read_uleb, sha256, uleb};

pub const MAGIC: [u8; 4] = [0x85, 0x6f, 0x4a, 0x83];

pub const T_DOC: u8 = 0;
pub const T_CHANGE: u8 = 1;
pub const T_COMPRESSED: u8 = 2;
pub const T_BUNDLE: u8 = 3;

#[derive(Clone, Debug)]
pub struct ChunkAt {
    pub start: usize,
    pub end: usize,
    pub typ: u8,
    pub body_start: usize,
    pub checksum: [u8; 4],
}

/// Split a byte string into the chunks that are wholly contained in it.
/// Returns (chunks, offset where parsing stopped).
pub fn split_chunks(data: &[u8]) -> (Vec<ChunkAt>, usize) {
    let mut out = vec![];
    let mut pos = 0;
    loop {
        if data.len() < pos + 9 || data[pos..pos + 4] != MAGIC {
            return (out, pos);
        }
        let mut checksum = [0u8; 4];
        checksum.copy_from_slice(&data[pos + 4..pos + 8]);
        let typ = data[pos + 8];
        let Some((len, n)) = read_uleb(data, pos + 9) else {
            return (out, pos);
        };
        let body_start = pos + 9 + n;
        let Some(end) = body_start.checked_add(len as usize) else {
            return (out, pos);
        };
        if end > data.len() {
            return (out, pos);
        }
        out.push(ChunkAt {
            start: pos,
            end,
            typ,
            body_start,
            checksum,
        });
        pos = end;
    }
}

/// checksum of a chunk = first four bytes of SHA-256(type ‖ leb(len) ‖ body)
pub fn checksum_of(typ: u8, body: &[u8]) -> [u8; 32] {
    let mut v = vec![typ];
    uleb(body.len() as u64, &mut v);
    v.extend_from_slice(body);
    sha256(&v)
}

pub fn build_chunk(typ: u8, body: &[u8]) -> Vec<u8> {
    let h = checksum_of(typ, body);
    let mut v = MAGIC.to_vec();
    v.extend_from_slice(&h[..4]);
    v.push(typ);
    uleb(body.len() as u64, &mut v);
    v.extend_from_slice(body);
    v
}

/// Recompute the length and checksum of a (possibly mutated) chunk body. For compressed change
/// chunks the checksum is over the *inflated* body with type 1.
pub fn rebuild_chunk(typ: u8, body: &[u8]) -> Vec<u8> {
    if typ == T_COMPRESSED {
        if let Some(raw) = inflate(body) {
            let h = checksum_of(T_CHANGE, &raw);
            let mut v = MAGIC.to_vec();
            v.extend_from_slice(&h[..4]);
            v.push(typ);
            uleb(body.len() as u64, &mut v);
            v.extend_from_slice(body);
            return v;
        }
    }
    build_chunk(typ, body)
}

pub fn inflate(data: &[u8]) -> Option<Vec<u8>> {
    use std::io::Read;
    let mut d = flate2::read::DeflateDecoder::new(data);
    let mut out = vec![];
    // cap the output: this is a harness helper, not the subject
    let mut buf = [0u8; 4096];
    loop {
        match d.read(&mut buf) {
            Ok(0) => return Some(out),
            Ok(n) => {
                out.extend_from_slice(&buf[..n]);
                if out.len() > 64 << 20 {
                    return None;
                }
            }
            Err(_) => return None,
        }
    }
}

pub fn deflate(data: &[u8]) -> Vec<u8> {
    use std::io::Write;
    let mut e = flate2::write::DeflateEncoder::new(Vec::new(), flate2::Compression::default());
    e.write_all(data).unwrap();
    e.finish().unwrap()
}

#[derive(Clone, Debug)]
pub struct DocSections {
    pub actors: Vec<Vec<u8>>,
    pub heads: Vec<[u8; 32]>,
    pub change_cols: Vec<(u64, u64)>,
    pub op_cols: Vec<(u64, u64)>,
    /// byte ranges relative to the start of the chunk body
    pub change_data: (usize, usize),
    pub op_data: (usize, usize),
    pub suffix: (usize, usize),
    pub prefix_end: usize,
}

/// Parse the section layout of a document chunk body.
pub fn doc_sections(body: &[u8]) -> Option<DocSections> {
    let mut pos = 0;
    let (n, k) = read_uleb(body, pos)?;
    pos += k;
    let mut actors = vec![];
    for _ in 0..n {
        let (l, k) = read_uleb(body, pos)?;
        pos += k;
        let end = pos.checked_add(l as usize)?;
        actors.push(body.get(pos..end)?.to_vec());
        pos = end;
    }
    let (n, k) = read_uleb(body, pos)?;
    pos += k;
    let mut heads = vec![];
    for _ in 0..n {
        let mut h = [0u8; 32];
        h.copy_from_slice(body.get(pos..pos + 32)?);
        heads.push(h);
        pos += 32;
    }
    let mut cols = |pos: &mut usize| -> Option<Vec<(u64, u64)>> {
        let (n, k) = read_uleb(body, *pos)?;
        *pos += k;
        let mut v = vec![];
        for _ in 0..n {
            let (spec, k) = read_uleb(body, *pos)?;
            *pos += k;
            let (len, k) = read_uleb(body, *pos)?;
            *pos += k;
            v.push((spec, len));
        }
        Some(v)
    };
    let change_cols = cols(&mut pos)?;
    let op_cols = cols(&mut pos)?;
    let prefix_end = pos;
    let clen: u64 = change_cols.iter().map(|c| c.1).sum();
    let olen: u64 = op_cols.iter().map(|c| c.1).sum();
    let cstart = pos;
    let cend = cstart.checked_add(clen as usize)?;
    let oend = cend.checked_add(olen as usize)?;
    if oend > body.len() {
        return None;
    }
    Some(DocSections {
        actors,
        heads,
        change_cols,
        op_cols,
        change_data: (cstart, cend),
        op_data: (cend, oend),
        suffix: (oend, body.len()),
        prefix_end,
    })
}

/// The part of an uncompressed document save that must be identical for equal change sets:
/// actor table, op column metadata, op column bytes.
pub fn opcols_of_save(save_nocompress: &[u8]) -> Result<Vec<u8>, String> {
    let (chunks, stop) = split_chunks(save_nocompress);
    if stop != save_nocompress.len() {
        return Err(format!("save output is not a whole number of chunks (stopped at {} of {})", stop, save_nocompress.len()));
    }
    let mut out = vec![];
    let mut docs = 0;
    for c in chunks.iter() {
        if c.typ != T_DOC {
            continue;
        }
        docs += 1;
        let body = &save_nocompress[c.body_start..c.end];
        let s = doc_sections(body).ok_or("cannot parse document chunk sections")?;
        for a in s.actors.iter() {
            uleb(a.len() as u64, &mut out);
            out.extend_from_slice(a);
        }
        out.push(0xff);
        for (spec, len) in s.op_cols.iter() {
            if spec & 0x8 != 0 {
                return Err("save_nocompress produced a compressed column".into());
            }
            uleb(*spec, &mut out);
            uleb(*len, &mut out);
        }
        out.push(0xff);
        out.extend_from_slice(&body[s.op_data.0..s.op_data.1]);
    }
    if docs != 1 {
        return Err(format!("expected one document chunk, found {}", docs));
    }
    Ok(out)
}
