//! The edit alphabet: a small op language whose object arguments are *roles* resolved at
//! execution time, so that operations from different replicas collide by construction.

use automerge::marks::{ExpandMark, Mark};
use automerge::transaction::Transactable;
use automerge::{AutomergeError, ObjId, ObjType, ReadDoc, ScalarValue, Value, ROOT};

#[derive(Clone, Copy, Debug, PartialEq, Eq, Hash)]
pub enum Role {
    Root,
    /// map at root["m"]
    M,
    /// list at root["l"]
    L,
    /// text at root["t"]
    T,
    /// map at root["m"]["m"]
    MM,
    /// first element of root["l"] that is an object (map/list)
    LO,
    /// list at root["m"]["l"]
    ML,
    /// whatever object currently wins root["a"]
    A,
}

#[derive(Clone, Copy, Debug, PartialEq, Eq, Hash)]
pub enum Pos {
    Start,
    Mid,
    End,
    /// len-1 (disabled on empty sequences)
    Last,
    /// fixed index
    At(usize),
}

#[derive(Clone, Copy, Debug, PartialEq)]
pub enum Val {
    Int(i64),
    Uint(u64),
    F64(f64),
    Str(&'static str),
    Bool(bool),
    Null,
    Counter(i64),
    Ts(i64),
    Bytes(&'static [u8]),
}

impl Val {
    pub fn scalar(&self) -> ScalarValue {
        match self {
            Val::Int(i) => ScalarValue::Int(*i),
            Val::Uint(u) => ScalarValue::Uint(*u),
            Val::F64(f) => ScalarValue::F64(*f),
            Val::Str(s) => ScalarValue::Str((*s).into()),
            Val::Bool(b) => ScalarValue::Boolean(*b),
            Val::Null => ScalarValue::Null,
            Val::Counter(c) => ScalarValue::counter(*c),
            Val::Ts(t) => ScalarValue::Timestamp(*t),
            Val::Bytes(b) => ScalarValue::Bytes(b.to_vec()),
        }
    }
}

#[derive(Clone, Copy, Debug, PartialEq)]
pub enum Key {
    K(&'static str),
    I(Pos),
}

#[derive(Clone, Copy, Debug, PartialEq)]
pub enum Op {
    Put(Role, Key, Val),
    PutObj(Role, Key, ObjType),
    Del(Role, Key),
    Inc(Role, Key, i64),
    Ins(Role, Pos, Val),
    InsObj(Role, Pos, ObjType),
    /// splice_text(pos, del, text); del is clamped to what is available after pos
    Splice(Role, Pos, usize, &'static str),
    Mark(Role, Pos, Pos, &'static str, Val, ExpandMark),
    SplitBlock(Role, Pos),
    JoinBlock(Role, Pos),
    /// two ops in one transaction (one change)
    Both(&'static Op, &'static Op),
}

pub fn get_obj<D: ReadDoc>(d: &D, obj: &ObjId, key: &str, ty: Option<ObjType>) -> Option<ObjId> {
    match d.get(obj, key) {
        Ok(Some((Value::Object(t), id))) if ty.is_none() || ty == Some(t) => Some(id),
        _ => None,
    }
}

pub fn resolve<D: ReadDoc>(d: &D, r: Role) -> Option<(ObjId, ObjType)> {
    match r {
        Role::Root => Some((ROOT, ObjType::Map)),
        Role::M => get_obj(d, &ROOT, "m", Some(ObjType::Map)).map(|i| (i, ObjType::Map)),
        Role::L => get_obj(d, &ROOT, "l", Some(ObjType::List)).map(|i| (i, ObjType::List)),
        Role::T => get_obj(d, &ROOT, "t", Some(ObjType::Text)).map(|i| (i, ObjType::Text)),
        Role::MM => {
            let m = get_obj(d, &ROOT, "m", Some(ObjType::Map))?;
            get_obj(d, &m, "m", Some(ObjType::Map)).map(|i| (i, ObjType::Map))
        }
        Role::ML => {
            let m = get_obj(d, &ROOT, "m", Some(ObjType::Map))?;
            get_obj(d, &m, "l", Some(ObjType::List)).map(|i| (i, ObjType::List))
        }
        Role::LO => {
            let l = get_obj(d, &ROOT, "l", Some(ObjType::List))?;
            for i in 0..d.length(&l) {
                if let Ok(Some((Value::Object(t), id))) = d.get(&l, i) {
                    return Some((id, t));
                }
            }
            None
        }
        Role::A => match d.get(&ROOT, "a") {
            Ok(Some((Value::Object(t), id))) => Some((id, t)),
            _ => None,
        },
    }
}

pub fn resolve_pos(len: usize, p: Pos) -> Option<usize> {
    match p {
        Pos::Start => Some(0),
        Pos::Mid => Some(len / 2),
        Pos::End => Some(len),
        Pos::Last => len.checked_sub(1),
        Pos::At(i) => Some(i),
    }
}

pub enum Applied {
    /// the role or position does not exist in this state: the action is not enabled
    Disabled,
    Done,
    Err(AutomergeError),
}

fn is_seq(t: ObjType) -> bool {
    matches!(t, ObjType::List | ObjType::Text)
}

/// Apply one op of the alphabet through the public editing API.
/// In "history" mode positions that do not exist disable the action (never an invalid call).
pub fn apply<T: Transactable>(tx: &mut T, op: &Op) -> Applied {
    macro_rules! role {
        ($r:expr) => {
            match resolve(tx, $r) {
                Some(x) => x,
                None => return Applied::Disabled,
            }
        };
    }
    macro_rules! done {
        ($e:expr) => {
            match $e {
                Ok(_) => Applied::Done,
                Err(e) => Applied::Err(e),
            }
        };
    }
    match op {
        Op::Put(r, k, v) => {
            let (obj, ty) = role!(*r);
            match k {
                Key::K(k) => {
                    if is_seq(ty) {
                        return Applied::Disabled;
                    }
                    done!(tx.put(&obj, *k, v.scalar()))
                }
                Key::I(p) => {
                    if !is_seq(ty) {
                        return Applied::Disabled;
                    }
                    let len = tx.length(&obj);
                    match resolve_pos(len, *p) {
                        Some(i) if i < len => done!(tx.put(&obj, i, v.scalar())),
                        _ => Applied::Disabled,
                    }
                }
            }
        }
        Op::PutObj(r, k, t) => {
            let (obj, ty) = role!(*r);
            match k {
                Key::K(k) => {
                    if is_seq(ty) {
                        return Applied::Disabled;
                    }
                    done!(tx.put_object(&obj, *k, *t))
                }
                Key::I(p) => {
                    if !is_seq(ty) {
                        return Applied::Disabled;
                    }
                    let len = tx.length(&obj);
                    match resolve_pos(len, *p) {
                        Some(i) if i < len => done!(tx.put_object(&obj, i, *t)),
                        _ => Applied::Disabled,
                    }
                }
            }
        }
        Op::Del(r, k) => {
            let (obj, ty) = role!(*r);
            match k {
                Key::K(k) => {
                    if is_seq(ty) {
                        return Applied::Disabled;
                    }
                    if !matches!(tx.get(&obj, *k), Ok(Some(_))) {
                        return Applied::Disabled;
                    }
                    done!(tx.delete(&obj, *k))
                }
                Key::I(p) => {
                    if !is_seq(ty) {
                        return Applied::Disabled;
                    }
                    let len = tx.length(&obj);
                    match resolve_pos(len, *p) {
                        Some(i) if i < len => done!(tx.delete(&obj, i)),
                        _ => Applied::Disabled,
                    }
                }
            }
        }
        Op::Inc(r, k, n) => {
            let (obj, ty) = role!(*r);
            // enabled only when some value in the slot is a counter (otherwise it is an invalid call)
            let has_counter = |all: Result<Vec<(Value<'_>, ObjId)>, AutomergeError>| match all {
                Ok(v) => v.iter().any(|(v, _)| matches!(v, Value::Scalar(s) if matches!(s.as_ref(), ScalarValue::Counter(_)))),
                Err(_) => false,
            };
            match k {
                Key::K(k) => {
                    if is_seq(ty) || !has_counter(tx.get_all(&obj, *k)) {
                        return Applied::Disabled;
                    }
                    done!(tx.increment(&obj, *k, *n))
                }
                Key::I(p) => {
                    if !is_seq(ty) {
                        return Applied::Disabled;
                    }
                    let len = tx.length(&obj);
                    match resolve_pos(len, *p) {
                        Some(i) if i < len && has_counter(tx.get_all(&obj, i)) => {
                            done!(tx.increment(&obj, i, *n))
                        }
                        _ => Applied::Disabled,
                    }
                }
            }
        }
        Op::Ins(r, p, v) => {
            let (obj, ty) = role!(*r);
            if !is_seq(ty) {
                return Applied::Disabled;
            }
            let len = tx.length(&obj);
            match resolve_pos(len, *p) {
                Some(i) if i <= len => done!(tx.insert(&obj, i, v.scalar())),
                _ => Applied::Disabled,
            }
        }
        Op::InsObj(r, p, t) => {
            let (obj, ty) = role!(*r);
            if !is_seq(ty) {
                return Applied::Disabled;
            }
            let len = tx.length(&obj);
            match resolve_pos(len, *p) {
                Some(i) if i <= len => done!(tx.insert_object(&obj, i, *t)),
                _ => Applied::Disabled,
            }
        }
        Op::Splice(r, p, del, s) => {
            let (obj, ty) = role!(*r);
            if ty != ObjType::Text {
                return Applied::Disabled;
            }
            let len = tx.length(&obj);
            match resolve_pos(len, *p) {
                Some(i) if i <= len => {
                    let del = (*del).min(len - i);
                    if del == 0 && s.is_empty() {
                        return Applied::Disabled;
                    }
                    done!(tx.splice_text(&obj, i, del as isize, s))
                }
                _ => Applied::Disabled,
            }
        }
        Op::Mark(r, a, b, name, v, e) => {
            let (obj, ty) = role!(*r);
            if ty != ObjType::Text {
                return Applied::Disabled;
            }
            let len = tx.length(&obj);
            match (resolve_pos(len, *a), resolve_pos(len, *b)) {
                (Some(i), Some(j)) if i <= j && j <= len => {
                    done!(tx.mark(&obj, Mark::new(name.to_string(), v.scalar(), i, j), *e))
                }
                _ => Applied::Disabled,
            }
        }
        Op::SplitBlock(r, p) => {
            let (obj, ty) = role!(*r);
            if ty != ObjType::Text {
                return Applied::Disabled;
            }
            let len = tx.length(&obj);
            match resolve_pos(len, *p) {
                Some(i) if i <= len => done!(tx.split_block(&obj, i)),
                _ => Applied::Disabled,
            }
        }
        Op::JoinBlock(r, p) => {
            let (obj, ty) = role!(*r);
            if ty != ObjType::Text {
                return Applied::Disabled;
            }
            let len = tx.length(&obj);
            match resolve_pos(len, *p) {
                Some(i) if i < len => {
                    // enabled only on an actual block marker
                    match tx.get(&obj, i) {
                        Ok(Some((Value::Object(ObjType::Map), _))) => done!(tx.join_block(&obj, i)),
                        _ => Applied::Disabled,
                    }
                }
                _ => Applied::Disabled,
            }
        }
        Op::Both(a, b) => match apply(tx, a) {
            Applied::Done => match apply(tx, b) {
                Applied::Disabled => Applied::Disabled,
                x => x,
            },
            x => x,
        },
    }
}

use Key::*;
use Op::*;
use Pos::*;
use Role::*;

pub const EA: ExpandMark = ExpandMark::After;
pub const EB: ExpandMark = ExpandMark::Before;
pub const EN: ExpandMark = ExpandMark::None;
pub const EBOTH: ExpandMark = ExpandMark::Both;

/// map + counter theme
pub static THEME_MAP: &[Op] = &[
    Put(Root, K("a"), Val::Int(1)),
    Put(Root, K("a"), Val::Str("x")),
    Del(Root, K("a")),
    Put(Root, K("a"), Val::Counter(10)),
    Inc(Root, K("a"), 2),
    Inc(Root, K("c"), 3),
    Put(Root, K("b"), Val::Bool(true)),
    PutObj(Root, K("a"), ObjType::Map),
    Put(A, K("a"), Val::Int(2)),
    Put(M, K("a"), Val::Int(3)),
    Del(Root, K("m")),
    Del(Root, K("c")),
];

/// list theme
pub static THEME_LIST: &[Op] = &[
    Ins(L, Start, Val::Int(1)),
    Ins(L, Mid, Val::Str("x")),
    Ins(L, End, Val::Int(2)),
    Put(L, I(Start), Val::Str("y")),
    Put(L, I(Last), Val::Counter(5)),
    Del(L, I(Start)),
    Del(L, I(Mid)),
    Del(L, I(Last)),
    Inc(L, I(Last), 1),
    Inc(L, I(Start), 4),
    InsObj(L, Start, ObjType::Map),
    Put(LO, K("a"), Val::Int(7)),
];

/// text theme (default encoding, single code points)
pub static THEME_TEXT: &[Op] = &[
    Splice(T, Start, 0, "a"),
    Splice(T, Mid, 0, "é"),
    Splice(T, End, 0, "xy"),
    Splice(T, Start, 1, ""),
    Splice(T, Mid, 1, "z"),
    Splice(T, Last, 1, ""),
    Splice(T, Start, 99, "q"),
    Put(T, I(Mid), Val::Str("w")),
    Ins(T, Mid, Val::Int(5)),
    SplitBlock(T, Mid),
    JoinBlock(T, Mid),
    Mark(T, Start, End, "bold", Val::Bool(true), EA),
];

/// marks theme
pub static THEME_MARKS: &[Op] = &[
    Mark(T, Start, Mid, "bold", Val::Bool(true), EA),
    Mark(T, Mid, End, "bold", Val::Bool(true), EBOTH),
    Mark(T, Start, End, "bold", Val::Null, EN),
    Mark(T, At(1), Last, "link", Val::Str("u"), EN),
    Mark(T, Mid, End, "link", Val::Str("v"), EB),
    Mark(T, Mid, Mid, "bold", Val::Bool(true), EBOTH),
    Mark(T, Mid, Last, "bold", Val::Null, EA),
    Splice(T, Start, 0, "a"),
    Splice(T, Mid, 0, "b"),
    Splice(T, End, 0, "c"),
    Splice(T, Mid, 1, ""),
    Splice(T, Start, 1, ""),
    Splice(T, Last, 1, ""),
    SplitBlock(T, Mid),
];

/// nested-object theme
pub static THEME_NESTED: &[Op] = &[
    PutObj(Root, K("m"), ObjType::Map),
    PutObj(M, K("m"), ObjType::Map),
    PutObj(M, K("l"), ObjType::List),
    Put(MM, K("a"), Val::Int(1)),
    Ins(ML, Start, Val::Int(1)),
    InsObj(ML, End, ObjType::Map),
    Del(M, K("m")),
    Del(Root, K("m")),
    PutObj(Root, K("l"), ObjType::List),
    InsObj(L, Start, ObjType::List),
    Put(LO, I(Start), Val::Int(3)),
    Ins(LO, Start, Val::Str("s")),
    PutObj(L, I(Start), ObjType::Map),
    Put(M, K("a"), Val::Str("s")),
];

/// multi-unit characters: 2/4 UTF-8 units, 2 UTF-16 units, 2 code points = 1 grapheme, a ZWJ sequence
pub static THEME_UNICODE: &[Op] = &[
    Splice(T, Start, 0, "é"),
    Splice(T, Mid, 0, "😀"),
    Splice(T, End, 0, "e\u{301}"),
    Splice(T, At(1), 0, "👨\u{200d}👩\u{200d}👧"),
    Splice(T, Start, 1, ""),
    Splice(T, Mid, 2, "x"),
    Splice(T, Last, 1, ""),
    Put(T, I(Mid), Val::Str("😀")),
    SplitBlock(T, Mid),
    Mark(T, Start, Mid, "bold", Val::Bool(true), EBOTH),
    Mark(T, Mid, End, "link", Val::Str("u"), EN),
    Mark(T, At(1), Last, "bold", Val::Null, EA),
];

pub fn theme(name: &str) -> &'static [Op] {
    match name {
        "map" => THEME_MAP,
        "list" => THEME_LIST,
        "text" => THEME_TEXT,
        "marks" => THEME_MARKS,
        "nested" => THEME_NESTED,
        "unicode" => THEME_UNICODE,
        _ => panic!("unknown theme {}", name),
    }
}

pub const THEMES: &[&str] = &["map", "list", "text", "marks", "nested"];
