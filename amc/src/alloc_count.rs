//! A counting global allocator, installed only by the worker binary (`amcw`).

use std::alloc::{GlobalAlloc, Layout, System};
use std::sync::atomic::{AtomicUsize, Ordering::Relaxed};

pub static CUR: AtomicUsize = AtomicUsize::new(0);
pub static PEAK: AtomicUsize = AtomicUsize::new(0);
pub static TOTAL: AtomicUsize = AtomicUsize::new(0);
pub static ENABLED: AtomicUsize = AtomicUsize::new(0);
pub static TRACE_BIG: AtomicUsize = AtomicUsize::new(0);

pub struct Counting;

unsafe impl GlobalAlloc for Counting {
    unsafe fn alloc(&self, l: Layout) -> *mut u8 {
        let p = System.alloc(l);
        if l.size() >= (32 << 20) && TRACE_BIG.load(Relaxed) == 1 {
            // debugging aid (VERIF_BT): where does a big allocation come from
            TRACE_BIG.store(0, Relaxed);
            eprintln!("allocation of {} bytes\n{}", l.size(), std::backtrace::Backtrace::force_capture());
            TRACE_BIG.store(1, Relaxed);
        }
        if !p.is_null() {
            let c = CUR.fetch_add(l.size(), Relaxed) + l.size();
            PEAK.fetch_max(c, Relaxed);
            TOTAL.fetch_add(l.size(), Relaxed);
        }
        p
    }
    unsafe fn dealloc(&self, p: *mut u8, l: Layout) {
        System.dealloc(p, l);
        CUR.fetch_sub(l.size(), Relaxed);
    }
    unsafe fn realloc(&self, p: *mut u8, l: Layout, new: usize) -> *mut u8 {
        let q = System.realloc(p, l, new);
        if !q.is_null() {
            if new >= l.size() {
                let c = CUR.fetch_add(new - l.size(), Relaxed) + (new - l.size());
                PEAK.fetch_max(c, Relaxed);
                TOTAL.fetch_add(new - l.size(), Relaxed);
            } else {
                CUR.fetch_sub(l.size() - new, Relaxed);
            }
        }
        q
    }
}

/// start measuring one case: returns the live-byte baseline
pub fn begin() -> usize {
    let cur = CUR.load(Relaxed);
    PEAK.store(cur, Relaxed);
    TOTAL.store(0, Relaxed);
    cur
}

/// (peak live bytes above the baseline, total bytes allocated) since `begin`
pub fn end(baseline: usize) -> (usize, usize) {
    (PEAK.load(Relaxed).saturating_sub(baseline), TOTAL.load(Relaxed))
}

pub fn installed() -> bool {
    ENABLED.load(Relaxed) == 1
}
