//! Harness-side causal graph utilities over `Change::deps()` (independent of ChangeGraph).

use automerge::{Change, ChangeHash};
use std::collections::{BTreeMap, BTreeSet};

pub struct Graph {
    pub changes: Vec<Change>,
    pub idx: BTreeMap<ChangeHash, usize>,
}

impl Graph {
    pub fn new(changes: Vec<Change>) -> Graph {
        let idx = changes.iter().enumerate().map(|(i, c)| (c.hash(), i)).collect();
        Graph { changes, idx }
    }

    /// ancestors of `heads` including themselves (only those present)
    pub fn ancestors(&self, heads: &[ChangeHash]) -> BTreeSet<ChangeHash> {
        let mut out = BTreeSet::new();
        let mut todo: Vec<ChangeHash> = heads.to_vec();
        while let Some(h) = todo.pop() {
            if let Some(&i) = self.idx.get(&h) {
                if out.insert(h) {
                    todo.extend(self.changes[i].deps().iter().cloned());
                }
            }
        }
        out
    }

    pub fn changes_of(&self, set: &BTreeSet<ChangeHash>) -> Vec<Change> {
        self.changes.iter().filter(|c| set.contains(&c.hash())).cloned().collect()
    }

    /// heads (maximal elements) of a causally closed set
    pub fn heads_of(&self, set: &BTreeSet<ChangeHash>) -> Vec<ChangeHash> {
        let mut named = BTreeSet::new();
        for h in set {
            for d in self.changes[self.idx[h]].deps() {
                named.insert(*d);
            }
        }
        let mut v: Vec<ChangeHash> = set.iter().filter(|h| !named.contains(h)).cloned().collect();
        v.sort();
        v
    }

    /// every causally closed subset, as its head set; capped at `cap` (breadth-first from empty)
    pub fn all_head_sets(&self, cap: usize) -> Vec<Vec<ChangeHash>> {
        let mut seen: BTreeSet<BTreeSet<ChangeHash>> = BTreeSet::new();
        let mut frontier: Vec<BTreeSet<ChangeHash>> = vec![BTreeSet::new()];
        seen.insert(BTreeSet::new());
        let mut out = vec![vec![]];
        while let Some(s) = frontier.pop() {
            for c in self.changes.iter() {
                let h = c.hash();
                if s.contains(&h) || !c.deps().iter().all(|d| s.contains(d)) {
                    continue;
                }
                let mut n = s.clone();
                n.insert(h);
                if seen.insert(n.clone()) {
                    out.push(self.heads_of(&n));
                    if out.len() >= cap {
                        return out;
                    }
                    frontier.insert(0, n);
                }
            }
        }
        out
    }

    /// head sets above a base: closed sets that contain all of `base` (head sets of interest when
    /// the base history is long)
    pub fn head_sets_above(&self, base: &BTreeSet<ChangeHash>, cap: usize) -> Vec<Vec<ChangeHash>> {
        let mut seen: BTreeSet<BTreeSet<ChangeHash>> = BTreeSet::new();
        let mut frontier: Vec<BTreeSet<ChangeHash>> = vec![base.clone()];
        seen.insert(base.clone());
        let mut out = vec![self.heads_of(base)];
        while let Some(s) = frontier.pop() {
            for c in self.changes.iter() {
                let h = c.hash();
                if s.contains(&h) || !c.deps().iter().all(|d| s.contains(d)) {
                    continue;
                }
                let mut n = s.clone();
                n.insert(h);
                if seen.insert(n.clone()) {
                    out.push(self.heads_of(&n));
                    if out.len() >= cap {
                        return out;
                    }
                    frontier.insert(0, n);
                }
            }
        }
        out
    }
}
