//! Sync protocol explorer: n peers, per-link sync states, FIFO channels of *encoded* messages,
//! local edits, injected Bloom false positives (hook), link drops with fresh / persisted state,
//! read-only toggles, snapshot restores. Every transition calls the real implementation.

use crate::explore::{Model, Step};
use crate::obs::hstr;
use crate::report::Violation;
use crate::world::{actor, obs_of};
use automerge::sync::{self, SyncDoc};
use automerge::transaction::Transactable;
use automerge::{Automerge, ChangeHash, ReadDoc, ROOT};
use sha2::{Digest, Sha256};
use std::collections::{BTreeMap, BTreeSet, VecDeque};
use std::hash::{Hash, Hasher};

#[derive(Clone)]
pub struct SWorld {
    pub docs: Vec<Automerge>,
    /// snapshot each peer can be restored to
    pub snapshots: Vec<Automerge>,
    pub links: BTreeSet<(usize, usize)>,
    /// state held by i about j
    pub states: BTreeMap<(usize, usize), sync::State>,
    pub chans: BTreeMap<(usize, usize), VecDeque<Vec<u8>>>,
    pub edits: Vec<u8>,
    pub fps: u8,
    /// if non-empty: only changes authored by these actors (first id byte) are candidates for an
    /// injected false positive (keeps a model with fps = 2 small)
    pub fp_actors: Vec<u8>,
    /// if non-zero: a peer only generates while fewer than this many of its messages are undelivered
    pub max_in_flight: usize,
    pub drops: u8,
    pub toggles: u8,
    pub restores: u8,
    pub cuts: u8,
    pub edit_seq: u8,
}

#[derive(Clone, Debug)]
pub enum SAct {
    Gen(usize, usize),
    /// generate while the filter the peer sent falsely claims to contain this hash
    GenFp(usize, usize, ChangeHash),
    Deliver(usize, usize),
    Edit(usize),
    /// connection i-j drops (in-flight messages lost), both reconnect; true = states persisted
    /// through State::encode/decode, false = fresh State::new()
    Drop(usize, usize, bool),
    Cut(usize, usize),
    Toggle(usize, usize),
    Restore(usize),
}

pub struct SyncModel {
    pub label: String,
    pub starts: Vec<(String, SWorld)>,
    pub rounds: usize,
    /// check convergence by fair completion from every state
    pub check_completion: bool,
}

fn state_hash(s: &sync::State) -> u64 {
    let mut h = std::collections::hash_map::DefaultHasher::new();
    s.hash(&mut h);
    h.finish()
}

pub fn link(i: usize, j: usize) -> (usize, usize) {
    (i.min(j), i.max(j))
}

impl SWorld {
    pub fn new(docs: Vec<Automerge>, links: &[(usize, usize)]) -> SWorld {
        let n = docs.len();
        let mut w = SWorld {
            snapshots: docs.clone(),
            docs,
            links: links.iter().map(|&(a, b)| link(a, b)).collect(),
            states: BTreeMap::new(),
            chans: BTreeMap::new(),
            edits: vec![0; n],
            fps: 0,
            fp_actors: vec![],
            max_in_flight: 0,
            drops: 0,
            toggles: 0,
            restores: 0,
            cuts: 0,
            edit_seq: 0,
        };
        for &(a, b) in links {
            w.states.insert((a, b), sync::State::new());
            w.states.insert((b, a), sync::State::new());
            w.chans.insert((a, b), VecDeque::new());
            w.chans.insert((b, a), VecDeque::new());
        }
        w
    }

    fn deliver(&mut self, i: usize, j: usize) -> Result<bool, Violation> {
        let Some(bytes) = self.chans.get_mut(&(i, j)).and_then(|c| c.pop_front()) else {
            return Ok(false);
        };
        let m = sync::Message::decode(&bytes).map_err(|e| Violation::new("sync-message-decodes", "decode", format!("{:?}", e)))?;
        let st = self.states.get_mut(&(j, i)).unwrap();
        let ro = st.read_only;
        let before = if ro { Some(self.docs[j].save()) } else { None };
        self.docs[j]
            .receive_sync_message(st, m)
            .map_err(|e| Violation::new("sync-no-error", "receive_sync_message", format!("{:?}", e)))?;
        if let Some(b) = before {
            if self.docs[j].save() != b {
                return Err(Violation::new(
                    "read-only-unchanged",
                    "receive_sync_message",
                    format!("peer {} is read-only towards {} but its document changed on receive", j, i),
                ));
            }
        }
        Ok(true)
    }

    fn generate(&mut self, i: usize, j: usize, fp: Option<ChangeHash>) -> bool {
        let st = self.states.get_mut(&(i, j)).unwrap();
        let before = state_hash(st);
        if let Some(h) = fp {
            sync::bloom_verif_hook::set_false_positives(vec![h]);
        }
        let m = self.docs[i].generate_sync_message(st);
        if fp.is_some() {
            sync::bloom_verif_hook::set_false_positives(vec![]);
        }
        match m {
            Some(m) => {
                self.chans.get_mut(&(i, j)).unwrap().push_back(m.encode());
                true
            }
            None => state_hash(st) != before,
        }
    }

    /// deliver everything, let every linked pair generate, repeat until nothing moves
    pub fn complete(&mut self, max_rounds: usize) -> Result<usize, Violation> {
        for round in 0..max_rounds {
            let mut moved = false;
            let pairs: Vec<(usize, usize)> = self.chans.keys().cloned().collect();
            for (i, j) in pairs.iter().cloned() {
                if !self.links.contains(&link(i, j)) {
                    continue;
                }
                while self.deliver(i, j)? {
                    moved = true;
                }
            }
            for (i, j) in pairs.iter().cloned() {
                if !self.links.contains(&link(i, j)) {
                    continue;
                }
                let had = self.chans[&(i, j)].len();
                self.generate(i, j, None);
                if self.chans[&(i, j)].len() > had {
                    moved = true;
                }
            }
            if !moved {
                return Ok(round);
            }
        }
        Err(Violation::new(
            "sync-goes-quiet",
            "fair-completion",
            format!("messages still flowing after {} fair rounds", max_rounds),
        ))
    }

    pub fn components(&self) -> Vec<Vec<usize>> {
        let n = self.docs.len();
        let mut comp: Vec<usize> = (0..n).collect();
        loop {
            let mut changed = false;
            for &(a, b) in self.links.iter() {
                let m = comp[a].min(comp[b]);
                if comp[a] != m || comp[b] != m {
                    comp[a] = m;
                    comp[b] = m;
                    changed = true;
                }
            }
            if !changed {
                break;
            }
        }
        let mut out: BTreeMap<usize, Vec<usize>> = BTreeMap::new();
        for (i, c) in comp.iter().enumerate() {
            out.entry(*c).or_default().push(i);
        }
        out.into_values().collect()
    }

    pub fn check_converged(&self) -> Result<(), Violation> {
        // changes flow from i to j over a link unless j is read-only towards i (a read-only peer
        // ignores what it receives, so it cannot relay either). flow[i][j] = i's changes can reach j.
        let n = self.docs.len();
        let mut flow = vec![vec![false; n]; n];
        for i in 0..n {
            flow[i][i] = true;
            for j in 0..n {
                if i != j && self.links.contains(&link(i, j)) && !self.states.get(&(j, i)).is_some_and(|s| s.read_only) {
                    flow[i][j] = true;
                }
            }
        }
        for k in 0..n {
            for i in 0..n {
                for j in 0..n {
                    if flow[i][k] && flow[k][j] {
                        flow[i][j] = true;
                    }
                }
            }
        }
        for i in 0..n {
            for j in 0..n {
                if i == j || !flow[i][j] {
                    continue;
                }
                // everything i has must have reached j
                let have: BTreeSet<ChangeHash> = self.docs[j].get_changes(&[]).iter().map(|c| c.hash()).collect();
                for h in self.docs[i].get_heads() {
                    if !have.contains(&h) {
                        let ro = (0..n).any(|k| self.states.get(&(i, k)).is_some_and(|s| s.read_only));
                        return Err(Violation::new(
                            if ro { "read-only-still-sends" } else { "sync-converges" },
                            "heads",
                            format!("after fair completion peer {} has head {} that peer {} (reachable over links that accept changes) never received; heads {:?} vs {:?}", i, h, j, hstr(&self.docs[i].get_heads()), hstr(&self.docs[j].get_heads())),
                        ));
                    }
                }
                if flow[j][i] && i < j {
                    if hstr(&self.docs[i].get_heads()) != hstr(&self.docs[j].get_heads()) {
                        return Err(Violation::new(
                            "sync-converges",
                            "heads",
                            format!("after fair completion peers {} and {} have heads {:?} vs {:?}", i, j, hstr(&self.docs[i].get_heads()), hstr(&self.docs[j].get_heads())),
                        ));
                    }
                    let (oa, ob) = (obs_of(&self.docs[i]), obs_of(&self.docs[j]));
                    if let Some(d) = oa.diff(&ob) {
                        return Err(Violation::new("sync-converges", "state", d));
                    }
                }
            }
        }
        Ok(())
    }
}

impl Model for SyncModel {
    type S = SWorld;
    type A = SAct;

    fn inits(&self) -> Vec<(String, SWorld)> {
        self.starts.clone()
    }

    fn actions(&self, s: &SWorld) -> Vec<SAct> {
        let mut v = vec![];
        let n = s.docs.len();
        for (&(i, j), q) in s.chans.iter() {
            if !s.links.contains(&link(i, j)) {
                continue;
            }
            if s.max_in_flight == 0 || q.len() < s.max_in_flight {
                v.push(SAct::Gen(i, j));
            }
            if !q.is_empty() {
                v.push(SAct::Deliver(i, j));
            }
        }
        if s.fps > 0 {
            for &(i, j) in s.chans.keys() {
                if !s.links.contains(&link(i, j)) || (s.max_in_flight > 0 && s.chans[&(i, j)].len() >= s.max_in_flight) {
                    continue;
                }
                // candidate false positives: hashes i has and j lacks
                let theirs: BTreeSet<ChangeHash> = s.docs[j].get_changes(&[]).iter().map(|c| c.hash()).collect();
                for c in s.docs[i].get_changes(&[]) {
                    if !theirs.contains(&c.hash()) && (s.fp_actors.is_empty() || c.actor_id().to_bytes().first().map(|b| s.fp_actors.contains(b)).unwrap_or(false)) {
                        v.push(SAct::GenFp(i, j, c.hash()));
                    }
                }
            }
        }
        for i in 0..n {
            if s.edits[i] > 0 {
                v.push(SAct::Edit(i));
            }
        }
        if s.drops > 0 {
            for &(a, b) in s.links.iter() {
                v.push(SAct::Drop(a, b, false));
                v.push(SAct::Drop(a, b, true));
            }
        }
        if s.cuts > 0 {
            for &(a, b) in s.links.iter() {
                v.push(SAct::Cut(a, b));
            }
        }
        if s.toggles > 0 {
            for &(i, j) in s.states.keys() {
                if s.links.contains(&link(i, j)) {
                    v.push(SAct::Toggle(i, j));
                }
            }
        }
        if s.restores > 0 {
            for i in 0..n {
                v.push(SAct::Restore(i));
            }
        }
        v
    }

    fn step(&self, s: &SWorld, a: &SAct) -> Step<SWorld> {
        let mut n = s.clone();
        match a {
            SAct::Gen(i, j) => {
                if n.generate(*i, *j, None) {
                    Step::Next(n)
                } else {
                    Step::Disabled
                }
            }
            SAct::GenFp(i, j, h) => {
                // only meaningful when the plain generate behaves differently
                let mut plain = s.clone();
                plain.generate(*i, *j, None);
                if n.generate(*i, *j, Some(*h)) {
                    if n.chans[&(*i, *j)] == plain.chans[&(*i, *j)] {
                        return Step::Disabled;
                    }
                    n.fps -= 1;
                    Step::Next(n)
                } else {
                    Step::Disabled
                }
            }
            SAct::Deliver(i, j) => match n.deliver(*i, *j) {
                Ok(true) => Step::Next(n),
                Ok(false) => Step::Disabled,
                Err(v) => Step::Fail(v),
            },
            SAct::Edit(i) => {
                let seq = n.edit_seq as i64;
                let mut tx = n.docs[*i].transaction();
                let r = tx.put(ROOT, "k", seq * 10 + *i as i64);
                if r.is_err() {
                    tx.rollback();
                    return Step::Disabled;
                }
                tx.commit();
                n.edits[*i] -= 1;
                n.edit_seq += 1;
                Step::Next(n)
            }
            SAct::Drop(a, b, persisted) => {
                for (x, y) in [(*a, *b), (*b, *a)] {
                    n.chans.get_mut(&(x, y)).unwrap().clear();
                    let old = n.states[&(x, y)].clone();
                    let fresh = if *persisted {
                        match sync::State::decode(&old.encode()) {
                            Ok(mut st) => {
                                // read-only is a local configuration, re-applied by the application
                                if old.read_only {
                                    st.set_read_only(true);
                                }
                                st
                            }
                            Err(e) => {
                                return Step::Fail(Violation::new("state-roundtrip", "State::decode(encode)", format!("{:?}", e)));
                            }
                        }
                    } else if old.read_only {
                        sync::State::new_read_only()
                    } else {
                        sync::State::new()
                    };
                    n.states.insert((x, y), fresh);
                }
                n.drops -= 1;
                Step::Next(n)
            }
            SAct::Cut(a, b) => {
                n.links.remove(&link(*a, *b));
                for (x, y) in [(*a, *b), (*b, *a)] {
                    n.chans.get_mut(&(x, y)).unwrap().clear();
                }
                n.cuts -= 1;
                Step::Next(n)
            }
            SAct::Toggle(i, j) => {
                let st = n.states.get_mut(&(*i, *j)).unwrap();
                let ro = st.read_only;
                st.set_read_only(!ro);
                n.toggles -= 1;
                Step::Next(n)
            }
            SAct::Restore(i) => {
                let snap = n.snapshots[*i].clone();
                if hstr(&snap.get_heads()) == hstr(&n.docs[*i].get_heads()) {
                    return Step::Disabled;
                }
                n.docs[*i] = snap;
                // the restored peer lost its sync states too
                let keys: Vec<(usize, usize)> = n.states.keys().cloned().filter(|k| k.0 == *i).collect();
                for k in keys {
                    n.states.insert(k, sync::State::new());
                    n.chans.get_mut(&k).unwrap().clear();
                }
                n.restores -= 1;
                Step::Next(n)
            }
        }
    }

    fn key(&self, s: &SWorld) -> [u8; 32] {
        let mut h = Sha256::new();
        for d in s.docs.iter() {
            for x in hstr(&d.get_heads()) {
                h.update(x.as_bytes());
            }
            h.update(b"/");
            for x in hstr(&d.get_missing_deps(&[])) {
                h.update(x.as_bytes());
            }
            h.update(b"|");
        }
        for (k, st) in s.states.iter() {
            h.update([k.0 as u8, k.1 as u8]);
            h.update(state_hash(st).to_le_bytes());
            h.update(format!("{:?}", st.sent_hashes).as_bytes());
        }
        for (k, q) in s.chans.iter() {
            h.update([k.0 as u8, k.1 as u8, q.len() as u8]);
            for m in q {
                h.update((m.len() as u32).to_le_bytes());
                h.update(m);
            }
        }
        for l in s.links.iter() {
            h.update([l.0 as u8, l.1 as u8]);
        }
        h.update(&s.edits);
        h.update([s.fps, s.drops, s.toggles, s.restores, s.cuts]);
        let mut r = [0u8; 32];
        r.copy_from_slice(&h.finalize());
        r
    }

    fn outcome(&self, s: &SWorld) -> [u8; 32] {
        let mut h = Sha256::new();
        for d in s.docs.iter() {
            for x in hstr(&d.get_heads()) {
                h.update(x.as_bytes());
            }
            h.update(b"|");
        }
        for (_, q) in s.chans.iter() {
            h.update([q.len() as u8]);
        }
        let mut r = [0u8; 32];
        r.copy_from_slice(&h.finalize());
        r
    }

    fn check_state(&self, s: &SWorld) -> Result<(), Violation> {
        if !self.check_completion {
            return Ok(());
        }
        // convergence as safety over states: from here, with no further edits or faults, a fair
        // schedule goes quiet within `rounds` and leaves every component with equal heads
        let mut w = s.clone();
        w.complete(self.rounds)?;
        for q in w.chans.values() {
            if !q.is_empty() {
                return Err(Violation::new("sync-goes-quiet", "channels", "messages left after completion"));
            }
        }
        w.check_converged()?;
        // a second completion must be a no-op (nobody left waiting with in_flight set)
        let r2 = w.complete(2)?;
        if r2 != 0 {
            return Err(Violation::new("sync-goes-quiet", "second-completion", "a quiet network produced messages again"));
        }
        // read-only peers switched back to read-write eventually receive what they skipped
        let ro: Vec<(usize, usize)> = w.states.iter().filter(|(_, st)| st.read_only).map(|(k, _)| *k).collect();
        if !ro.is_empty() {
            for k in ro {
                w.states.get_mut(&k).unwrap().set_read_only(false);
            }
            w.complete(self.rounds)?;
            w.check_converged()?;
        }
        Ok(())
    }

    fn describe(&self, s: &SWorld) -> serde_json::Value {
        serde_json::json!({
            "heads": s.docs.iter().map(|d| hstr(&d.get_heads())).collect::<Vec<_>>(),
            "queued": s.chans.iter().map(|(k, q)| format!("{}->{}:{}", k.0, k.1, q.len())).collect::<Vec<_>>(),
        })
    }
}

/// starting documents for sync worlds
pub fn start_docs(kind: &str, n: usize) -> Vec<Automerge> {
    let mk = |i: usize| Automerge::new().with_actor(actor(crate::world::REPLICA_ACTORS[i]));
    let put = |d: &mut Automerge, k: &str, v: i64| {
        let mut tx = d.transaction();
        tx.put(ROOT, k, v).unwrap();
        tx.commit();
    };
    let mut base = Automerge::new().with_actor(actor(crate::world::BASE_ACTOR));
    // six changes: with a shared history this long, a peer that has to send one or two changes sends
    // them individually (chosen through the Bloom filter) instead of falling back to "more than a
    // third of the document: send all of it", which would make the Bloom-driven paths unreachable
    for i in 1..=6 {
        put(&mut base, "base", i);
    }
    let forked = |i: usize| base.fork().with_actor(actor(crate::world::REPLICA_ACTORS[i]));
    match kind {
        "empty" => (0..n).map(mk).collect(),
        // peer 0 has a short history, the others nothing
        "one-has-history" => {
            let mut v: Vec<Automerge> = (0..n).map(mk).collect();
            put(&mut v[0], "a", 1);
            put(&mut v[0], "a", 2);
            put(&mut v[0], "b", 3);
            v
        }
        "common-base" => (0..n).map(forked).collect(),
        "diverged" => {
            let mut v: Vec<Automerge> = (0..n).map(forked).collect();
            for (i, d) in v.iter_mut().enumerate() {
                put(d, "k", i as i64);
                if i == 0 {
                    put(d, "j", 7);
                }
            }
            v
        }
        "one-ahead" => {
            let mut v: Vec<Automerge> = (0..n).map(forked).collect();
            put(&mut v[0], "k", 1);
            put(&mut v[0], "k", 2);
            v
        }
        // peer 1 holds an orphan (a change whose parent it lacks) in its queue
        "orphan" => {
            let mut v: Vec<Automerge> = (0..n).map(forked).collect();
            put(&mut v[0], "k", 1);
            put(&mut v[0], "k", 2);
            let last = v[0].get_last_local_change().unwrap();
            v[1].apply_changes([last]).unwrap();
            v
        }
        // peer 0 holds a queued change `o` of a THIRD party whose parent `d` it lacks; peer 1 has
        // `d` (but not `o`), an own change on top of it and a separate root `r` of a fourth actor.
        // With two Bloom false positives (r in peer 0's filter, o in peer 1's) peer 0 unblocks `o`
        // from peer 1's first answer and ends up with a "last sync" head peer 1 has never seen:
        // the sync-reset path
        "third-party-orphan" => {
            let mut v: Vec<Automerge> = (0..n).map(forked).collect();
            let mut c = base.fork().with_actor(actor(0x70));
            put(&mut c, "d", 0);
            let d_change = c.get_last_local_change().unwrap();
            v[1].apply_changes([d_change]).unwrap();
            put(&mut v[1], "b1", 0);
            put(&mut v[0], "a1", 0);
            let mut r = Automerge::new().with_actor(actor(0x7f));
            put(&mut r, "r", 0);
            v[1].merge(&mut r).unwrap();
            put(&mut c, "o", 0);
            let o_change = c.get_last_local_change().unwrap();
            v[0].apply_changes([o_change]).unwrap();
            v
        }
        _ => panic!("unknown start {}", kind),
    }
}

pub const START_KINDS: &[&str] = &["empty", "one-has-history", "common-base", "diverged", "one-ahead", "orphan"];

