//! Small helpers: hashing, panic capture, LEB128.

use sha2::{Digest, Sha256};
use std::cell::RefCell;
use std::panic::{catch_unwind, AssertUnwindSafe};
use std::sync::Once;

pub fn sha256(data: &[u8]) -> [u8; 32] {
    let mut h = Sha256::new();
    h.update(data);
    let out = h.finalize();
    let mut r = [0u8; 32];
    r.copy_from_slice(&out[..]);
    r
}

pub fn sha256_hex(data: &[u8]) -> String {
    hex::encode(sha256(data))
}

thread_local! {
    static LAST_PANIC: RefCell<Option<PanicSite>> = const { RefCell::new(None) };
    static QUIET: RefCell<bool> = const { RefCell::new(false) };
}

#[derive(Clone, Debug)]
pub struct PanicSite {
    pub location: String,
    pub message: String,
}

static HOOK: Once = Once::new();

/// called with the location of every panic (the byte engine's worker records it in its journal,
/// so that an abort caused by a panic inside a destructor can still be attributed to a site)
pub static PANIC_TAP: std::sync::OnceLock<fn(&str)> = std::sync::OnceLock::new();

const GENERIC_SITES: [&str; 2] = ["automerge/src/types.rs:464", "library/core/src/slice/sort/shared/smallsort.rs:860"];

pub fn install_panic_hook() {
    HOOK.call_once(|| {
        let prev = std::panic::take_hook();
        std::panic::set_hook(Box::new(move |info| {
            let location = info
                .location()
                .map(|l| {
                    let f = l.file();
                    // make the site independent of where /repo is mounted
                    let f = f.rsplit_once("/rust/").map(|x| x.1).unwrap_or(f);
                    format!("{}:{}", f, l.line())
                })
                .unwrap_or_else(|| "?".into());
            let message = if let Some(s) = info.payload().downcast_ref::<&str>() {
                s.to_string()
            } else if let Some(s) = info.payload().downcast_ref::<String>() {
                s.clone()
            } else {
                "<non-string panic>".to_string()
            };
            // a few panic locations are shared helpers (OpId::new unwraps the narrowing of a
            // counter): the site then also names the first caller outside that file, so that a
            // listed finding at one caller does not hide a new one at another
            let location = if GENERIC_SITES.contains(&location.as_str()) {
                let bt = std::backtrace::Backtrace::force_capture().to_string();
                let own_file = location.rsplit_once(':').map(|x| x.0).unwrap_or("").to_string();
                let mut caller = None;
                for line in bt.lines() {
                    let line = line.trim();
                    if let Some(rest) = line.strip_prefix("at ") {
                        if let Some((_, rel)) = rest.rsplit_once("/rust/") {
                            if (rel.starts_with("automerge/src") || rel.starts_with("hexane/src")) && !rel.starts_with(&own_file) {
                                // file:line:col -> file:line
                                let mut parts = rel.split(':');
                                let f = parts.next().unwrap_or("");
                                let l = parts.next().unwrap_or("");
                                caller = Some(format!("{}:{}", f, l));
                                break;
                            }
                        }
                    }
                }
                match caller {
                    Some(c) => format!("{}<-{}", location, c),
                    None => location,
                }
            } else {
                location
            };
            if let Some(tap) = PANIC_TAP.get() {
                tap(&location);
            }
            let quiet = QUIET.with(|q| *q.borrow());
            if std::env::var("VERIF_BT").is_ok() {
                eprintln!("panic at {}: {}\n{}", location, message, std::backtrace::Backtrace::force_capture());
            }
            LAST_PANIC.with(|p| {
                *p.borrow_mut() = Some(PanicSite {
                    location,
                    message: message.clone(),
                })
            });
            if !quiet {
                prev(info);
            }
        }));
    });
}

/// Run `f`, turning a panic into `Err(PanicSite)`. The panic message is not printed.
pub fn guard<T>(f: impl FnOnce() -> T) -> Result<T, PanicSite> {
    install_panic_hook();
    let was = QUIET.with(|q| q.replace(true));
    LAST_PANIC.with(|p| *p.borrow_mut() = None);
    let r = catch_unwind(AssertUnwindSafe(f));
    QUIET.with(|q| *q.borrow_mut() = was);
    match r {
        Ok(v) => Ok(v),
        Err(_) => Err(LAST_PANIC.with(|p| p.borrow_mut().take()).unwrap_or(PanicSite {
            location: "?".into(),
            message: "?".into(),
        })),
    }
}

pub fn uleb(mut v: u64, out: &mut Vec<u8>) {
    loop {
        let b = (v & 0x7f) as u8;
        v >>= 7;
        if v == 0 {
            out.push(b);
            return;
        }
        out.push(b | 0x80);
    }
}

/// Decode an unsigned LEB128 at `data[pos..]`; returns (value, bytes consumed).
pub fn read_uleb(data: &[u8], pos: usize) -> Option<(u64, usize)> {
    let mut v: u64 = 0;
    let mut shift = 0u32;
    let mut i = pos;
    loop {
        let b = *data.get(i)?;
        i += 1;
        if shift >= 64 {
            return None;
        }
        v |= ((b & 0x7f) as u64).checked_shl(shift)?;
        if b & 0x80 == 0 {
            return Some((v, i - pos));
        }
        shift += 7;
    }
}

pub fn tier_is_thorough(tier: &str) -> bool {
    tier == "thorough"
}

thread_local! {
    static REPLAYING: RefCell<bool> = const { RefCell::new(false) };
}

/// true while a path is being re-executed: oracles must not skip work they have "already done"
pub fn replaying() -> bool {
    REPLAYING.with(|r| *r.borrow())
}

pub fn with_replaying<T>(f: impl FnOnce() -> T) -> T {
    let was = REPLAYING.with(|r| r.replace(true));
    let out = f();
    REPLAYING.with(|r| *r.borrow_mut() = was);
    out
}
