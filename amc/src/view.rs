//! A materialised view of a document and an independent patch applier, written from the
//! documentation of the nine `PatchAction`s (independent of `hydrate::Value::apply_patches`).

use crate::obs::{render_scalar, ONode, Obs};
use crate::refmodel::width;
use automerge::{ObjId, ObjType, Patch, PatchAction, Prop, ReadDoc, ScalarValue, TextEncoding, Value};
use serde::Serialize;
use std::collections::BTreeMap;
use unicode_segmentation::UnicodeSegmentation;

#[derive(Clone, Debug, PartialEq, Eq, Serialize)]
pub enum VVal {
    Scalar(String),
    Counter(i64),
    Obj(String),
}

#[derive(Clone, Debug, PartialEq, Eq, Serialize)]
pub struct VSlot {
    pub val: VVal,
    pub conflict: bool,
}

#[derive(Clone, Debug, PartialEq, Eq, Serialize)]
pub struct VUnit {
    /// the string this unit starts ("" for the continuation units of a multi-unit character)
    pub s: String,
    pub marks: BTreeMap<String, String>,
    pub obj: Option<String>,
}

#[derive(Clone, Debug, PartialEq, Eq, Serialize)]
pub enum VNode {
    Map(BTreeMap<String, VSlot>),
    List(Vec<VSlot>),
    Text(Vec<VUnit>),
}

#[derive(Clone, Debug, PartialEq, Eq, Serialize)]
pub struct View {
    pub enc_name: String,
    pub objs: BTreeMap<String, VNode>,
}

fn enc_of(name: &str) -> TextEncoding {
    match name {
        "UnicodeCodePoint" => TextEncoding::UnicodeCodePoint,
        "Utf8CodeUnit" => TextEncoding::Utf8CodeUnit,
        "Utf16CodeUnit" => TextEncoding::Utf16CodeUnit,
        _ => TextEncoding::GraphemeCluster,
    }
}

/// split an inserted string into per-unit pieces for the encoding
pub fn units_of(enc: TextEncoding, s: &str, marks: &BTreeMap<String, String>) -> Vec<VUnit> {
    let mut out = vec![];
    let pieces: Vec<String> = match enc {
        TextEncoding::GraphemeCluster => s.graphemes(true).map(|g| g.to_string()).collect(),
        _ => s.chars().map(|c| c.to_string()).collect(),
    };
    for p in pieces {
        let w = width(enc, &p);
        out.push(VUnit { s: p, marks: marks.clone(), obj: None });
        for _ in 1..w {
            out.push(VUnit { s: String::new(), marks: marks.clone(), obj: None });
        }
    }
    out
}

fn vval(v: &Value<'_>, id: &ObjId) -> VVal {
    match v {
        Value::Object(_) => VVal::Obj(id.to_string()),
        Value::Scalar(s) => match s.as_ref() {
            ScalarValue::Counter(c) => VVal::Counter(i64::from(c)),
            other => VVal::Scalar(render_scalar(other)),
        },
    }
}

fn empty_node(t: ObjType) -> VNode {
    match t {
        ObjType::Map | ObjType::Table => VNode::Map(BTreeMap::new()),
        ObjType::List => VNode::List(vec![]),
        ObjType::Text => VNode::Text(vec![]),
    }
}

impl View {
    pub fn empty(enc: TextEncoding) -> View {
        let mut objs = BTreeMap::new();
        objs.insert("_root".to_string(), VNode::Map(BTreeMap::new()));
        View { enc_name: format!("{:?}", enc), objs }
    }

    pub fn enc(&self) -> TextEncoding {
        enc_of(&self.enc_name)
    }

    /// the view a document shows through its read API (winners + conflict flags)
    pub fn of_obs(o: &Obs, enc: TextEncoding) -> View {
        let mut objs = BTreeMap::new();
        let conv = |vals: &Vec<crate::obs::OVal>| -> Option<VSlot> {
            let w = vals.last()?;
            let val = if w.v.starts_with('<') {
                VVal::Obj(w.id.clone())
            } else if let Some(rest) = w.v.strip_prefix("Counter(") {
                VVal::Counter(rest.trim_end_matches(')').parse().unwrap_or(0))
            } else {
                VVal::Scalar(w.v.clone())
            };
            Some(VSlot { val, conflict: vals.len() > 1 })
        };
        for (id, n) in o.objs.iter() {
            let vn = match n {
                ONode::Map(m) | ONode::Table(m) => VNode::Map(m.iter().filter_map(|(k, v)| conv(v).map(|s| (k.clone(), s))).collect()),
                ONode::List(l) => VNode::List(l.iter().filter_map(conv).collect()),
                ONode::Text(t) => {
                    let mut units = vec![];
                    for (i, (start, vals)) in t.elems.iter().enumerate() {
                        let end = t.elems.get(i + 1).map(|e| e.0).unwrap_or(t.len);
                        let w = vals.last();
                        let (s, obj) = match w {
                            Some(w) if w.v.starts_with('<') => ("\u{fffc}".to_string(), Some(w.id.clone())),
                            Some(w) if w.v.starts_with("Str(") => {
                                // recover the string from its Debug rendering
                                let inner = &w.v[4..w.v.len() - 1];
                                (unescape_debug(inner), None)
                            }
                            Some(_) => ("\u{fffc}".to_string(), None),
                            None => (String::new(), None),
                        };
                        // a single element may hold a string of several characters (a put of "xyz" on
                        // one text element): patches describe text, not element grouping, so the view
                        // spreads the string over the element's units exactly as a splice of it would
                        let pieces = if obj.is_none() { units_of(enc, &s, &BTreeMap::new()) } else { vec![] };
                        let spread = pieces.len() == end - *start && pieces.len() > 1;
                        for u in *start..end {
                            units.push(VUnit {
                                s: if spread { pieces[u - *start].s.clone() } else if u == *start { s.clone() } else { String::new() },
                                marks: t.unit_marks.get(u).cloned().unwrap_or_default(),
                                obj: if u == *start { obj.clone() } else { None },
                            });
                        }
                    }
                    VNode::Text(units)
                }
                ONode::Err(e) => VNode::Map([(format!("ERR {}", e), VSlot { val: VVal::Scalar("ERR".into()), conflict: false })].into_iter().collect()),
            };
            objs.insert(id.clone(), vn);
        }
        View { enc_name: format!("{:?}", enc), objs }
    }

    pub fn of_doc<D: ReadDoc>(d: &D, heads: Option<&[automerge::ChangeHash]>, enc: TextEncoding) -> View {
        let o = crate::obs::observe(d, heads, &[]);
        Self::of_obs(&o, enc)
    }

    /// the part of the view reachable from the root through winners
    pub fn reachable(&self) -> View {
        let mut objs = BTreeMap::new();
        let mut todo = vec!["_root".to_string()];
        while let Some(id) = todo.pop() {
            if objs.contains_key(&id) {
                continue;
            }
            let Some(n) = self.objs.get(&id) else { continue };
            match n {
                VNode::Map(m) => {
                    for s in m.values() {
                        if let VVal::Obj(o) = &s.val {
                            todo.push(o.clone());
                        }
                    }
                }
                VNode::List(l) => {
                    for s in l {
                        if let VVal::Obj(o) = &s.val {
                            todo.push(o.clone());
                        }
                    }
                }
                VNode::Text(u) => {
                    for x in u {
                        if let Some(o) = &x.obj {
                            todo.push(o.clone());
                        }
                    }
                }
            }
            // patches cannot carry marks for embedded objects / non-text scalars (Insert has no mark
            // field), so marks on placeholder units are not part of the comparable state
            let mut n = n.clone();
            if let VNode::Text(u) = &mut n {
                let mut in_placeholder = false;
                for x in u.iter_mut() {
                    if !x.s.is_empty() {
                        in_placeholder = x.s == "\u{fffc}";
                    }
                    if in_placeholder {
                        x.marks.clear();
                    }
                }
            }
            objs.insert(id, n);
        }
        View { enc_name: self.enc_name.clone(), objs }
    }

    /// restrict to one object (non-recursive comparisons)
    pub fn only(&self, id: &str) -> Option<VNode> {
        self.objs.get(id).cloned()
    }

    pub fn diff(&self, other: &View) -> Option<String> {
        self.diff_aspect(other).map(|x| x.1)
    }

    /// (aspect, message): aspect names what differs, for signatures
    pub fn diff_aspect(&self, other: &View) -> Option<(String, String)> {
        let (a, b) = (self.reachable(), other.reachable());
        for (k, x) in a.objs.iter() {
            match b.objs.get(k) {
                None => return Some(("extra-object".into(), format!("object {} only in patched view: {:?}", k, x))),
                Some(y) if x != y => {
                    return Some((node_aspect(x, y), format!("object {}: patched view {} vs document {}", k, render_node(x), render_node(y))))
                }
                _ => {}
            }
        }
        for (k, y) in b.objs.iter() {
            if !a.objs.contains_key(k) {
                return Some(("missing-object".into(), format!("object {} only in document: {}", k, render_node(y))));
            }
        }
        None
    }

    fn new_obj(&mut self, v: &Value<'_>, id: &ObjId) {
        if let Value::Object(t) = v {
            // a patch that (re)introduces an object starts it empty: its content follows as patches
            self.objs.insert(id.to_string(), empty_node(*t));
        }
    }

    pub fn apply(&mut self, p: &Patch) -> Result<(), String> {
        let enc = self.enc();
        let oid = p.obj.to_string();
        // values carrying objects create their node first
        match &p.action {
            PatchAction::PutMap { value, .. } | PatchAction::PutSeq { value, .. } => self.new_obj(&value.0, &value.1),
            PatchAction::Insert { values, .. } => {
                for (v, id, _) in values.iter() {
                    self.new_obj(v, id);
                }
            }
            _ => {}
        }
        let node = self.objs.get_mut(&oid).ok_or_else(|| format!("patch on object {} which the view does not have: {:?}", oid, p.action))?;
        match (&p.action, node) {
            (PatchAction::PutMap { key, value, conflict }, VNode::Map(m)) => {
                m.insert(key.clone(), VSlot { val: vval(&value.0, &value.1), conflict: *conflict });
                Ok(())
            }
            (PatchAction::PutSeq { index, value, conflict }, VNode::List(l)) => {
                let len = l.len();
                let slot = l.get_mut(*index).ok_or_else(|| format!("PutSeq index {} out of range (len {})", index, len))?;
                *slot = VSlot { val: vval(&value.0, &value.1), conflict: *conflict };
                Ok(())
            }
            (PatchAction::PutSeq { index, value, .. }, VNode::Text(u)) => {
                if *index >= u.len() {
                    return Err(format!("PutSeq index {} out of range in text (len {})", index, u.len()));
                }
                if u[*index].s.is_empty() {
                    return Err(format!("PutSeq index {} is inside a multi-unit character", index));
                }
                let mut end = *index + 1;
                while end < u.len() && u[end].s.is_empty() {
                    end += 1;
                }
                let marks = u[*index].marks.clone();
                let new = match &value.0 {
                    Value::Object(_) => {
                        let mut v = units_of(enc, "\u{fffc}", &marks);
                        v[0].obj = Some(value.1.to_string());
                        v
                    }
                    Value::Scalar(s) => match s.as_ref() {
                        ScalarValue::Str(s) => units_of(enc, s, &marks),
                        _ => units_of(enc, "\u{fffc}", &marks),
                    },
                };
                u.splice(*index..end, new);
                Ok(())
            }
            (PatchAction::Insert { index, values }, VNode::List(l)) => {
                if *index > l.len() {
                    return Err(format!("Insert index {} out of range (len {})", index, l.len()));
                }
                let new: Vec<VSlot> = values.iter().map(|(v, id, c)| VSlot { val: vval(v, id), conflict: *c }).collect();
                l.splice(*index..*index, new);
                Ok(())
            }
            (PatchAction::Insert { index, values }, VNode::Text(u)) => {
                if *index > u.len() {
                    return Err(format!("Insert index {} out of range in text (len {})", index, u.len()));
                }
                if *index < u.len() && u[*index].s.is_empty() {
                    return Err(format!("Insert index {} is inside a multi-unit character", index));
                }
                let mut new = vec![];
                for (v, id, _) in values.iter() {
                    match v {
                        Value::Object(_) => {
                            let mut x = units_of(enc, "\u{fffc}", &BTreeMap::new());
                            x[0].obj = Some(id.to_string());
                            new.extend(x);
                        }
                        Value::Scalar(s) => match s.as_ref() {
                            ScalarValue::Str(s) => new.extend(units_of(enc, s, &BTreeMap::new())),
                            _ => new.extend(units_of(enc, "\u{fffc}", &BTreeMap::new())),
                        },
                    }
                }
                u.splice(*index..*index, new);
                Ok(())
            }
            (PatchAction::SpliceText { index, value, marks }, VNode::Text(u)) => {
                if *index > u.len() {
                    return Err(format!("SpliceText index {} out of range (len {})", index, u.len()));
                }
                if *index < u.len() && u[*index].s.is_empty() {
                    return Err(format!("SpliceText index {} is inside a multi-unit character", index));
                }
                let m: BTreeMap<String, String> = marks
                    .as_ref()
                    .map(|m| m.iter().filter(|(_, v)| !matches!(v, ScalarValue::Null)).map(|(k, v)| (k.to_string(), render_scalar(v))).collect())
                    .unwrap_or_default();
                let new = units_of(enc, &value.make_string(), &m);
                u.splice(*index..*index, new);
                Ok(())
            }
            (PatchAction::Increment { prop, value }, n) => {
                let slot = match (prop, n) {
                    (Prop::Map(k), VNode::Map(m)) => m.get_mut(k),
                    (Prop::Seq(i), VNode::List(l)) => l.get_mut(*i),
                    _ => None,
                }
                .ok_or_else(|| format!("Increment on missing prop {:?}", prop))?;
                match &mut slot.val {
                    VVal::Counter(c) => {
                        *c = c.wrapping_add(*value);
                        Ok(())
                    }
                    // an increment of a counter that is not the winning value of its slot cannot be
                    // addressed by the patch language; it does not change the visible state
                    _ => Ok(()),
                }
            }
            (PatchAction::Conflict { prop }, n) => {
                match (prop, n) {
                    (Prop::Map(k), VNode::Map(m)) => {
                        m.get_mut(k).ok_or_else(|| format!("Conflict on missing key {:?}", k))?.conflict = true;
                    }
                    (Prop::Seq(i), VNode::List(l)) => {
                        l.get_mut(*i).ok_or_else(|| format!("Conflict on missing index {}", i))?.conflict = true;
                    }
                    (Prop::Seq(_), VNode::Text(_)) => {}
                    _ => return Err(format!("Conflict with wrong prop kind {:?}", prop)),
                }
                Ok(())
            }
            (PatchAction::DeleteMap { key }, VNode::Map(m)) => {
                m.remove(key).map(|_| ()).ok_or_else(|| format!("DeleteMap of missing key {:?}", key))
            }
            (PatchAction::DeleteSeq { index, length }, VNode::List(l)) => {
                if index + length > l.len() {
                    return Err(format!("DeleteSeq {}+{} out of range (len {})", index, length, l.len()));
                }
                l.drain(*index..index + length);
                Ok(())
            }
            (PatchAction::DeleteSeq { index, length }, VNode::Text(u)) => {
                if index + length > u.len() {
                    return Err(format!("DeleteSeq {}+{} out of range in text (len {})", index, length, u.len()));
                }
                if *length > 0 && u[*index].s.is_empty() {
                    return Err(format!("DeleteSeq starts inside a multi-unit character at {}", index));
                }
                if index + length < u.len() && u[index + length].s.is_empty() {
                    return Err(format!("DeleteSeq ends inside a multi-unit character at {}", index + length));
                }
                u.drain(*index..index + length);
                Ok(())
            }
            (PatchAction::Mark { marks }, VNode::Text(u)) => {
                for m in marks {
                    if m.start > m.end || m.end > u.len() {
                        return Err(format!("Mark [{}, {}) out of range (len {})", m.start, m.end, u.len()));
                    }
                    for x in u[m.start..m.end].iter_mut() {
                        if matches!(m.value(), ScalarValue::Null) {
                            x.marks.remove(m.name());
                        } else {
                            x.marks.insert(m.name().to_string(), render_scalar(m.value()));
                        }
                    }
                }
                Ok(())
            }
            (a, n) => Err(format!("patch {:?} does not fit object {} of kind {}", a, oid, node_kind(n))),
        }
    }
}

pub fn node_aspect(a: &VNode, b: &VNode) -> String {
    match (a, b) {
        (VNode::Map(x), VNode::Map(y)) => {
            let vals = |m: &BTreeMap<String, VSlot>| m.iter().map(|(k, s)| (k.clone(), s.val.clone())).collect::<Vec<_>>();
            if vals(x) == vals(y) {
                "map:conflict-flag".into()
            } else {
                "map:value".into()
            }
        }
        (VNode::List(x), VNode::List(y)) => {
            let vals = |l: &Vec<VSlot>| l.iter().map(|s| s.val.clone()).collect::<Vec<_>>();
            if vals(x) == vals(y) {
                "list:conflict-flag".into()
            } else {
                "list:value".into()
            }
        }
        (VNode::Text(x), VNode::Text(y)) => {
            let txt = |u: &Vec<VUnit>| u.iter().map(|x| (x.s.clone(), x.obj.clone())).collect::<Vec<_>>();
            if txt(x) == txt(y) {
                "text:marks".into()
            } else {
                "text:content".into()
            }
        }
        _ => "object-kind".into(),
    }
}

fn node_kind(n: &VNode) -> &'static str {
    match n {
        VNode::Map(_) => "map",
        VNode::List(_) => "list",
        VNode::Text(_) => "text",
    }
}

pub fn render_node(n: &VNode) -> String {
    match n {
        VNode::Map(m) => format!("{:?}", m.iter().map(|(k, s)| format!("{}={:?}{}", k, s.val, if s.conflict { "!" } else { "" })).collect::<Vec<_>>()),
        VNode::List(l) => format!("{:?}", l.iter().map(|s| format!("{:?}{}", s.val, if s.conflict { "!" } else { "" })).collect::<Vec<_>>()),
        VNode::Text(u) => format!(
            "text {:?} units {:?}",
            u.iter().map(|x| x.s.clone()).collect::<String>(),
            u.iter().map(|x| format!("{:?}{:?}", x.s, x.marks)).collect::<Vec<_>>()
        ),
    }
}

/// inverse of `{:?}` on a str, good enough for the alphabets used here
pub fn unescape_debug(s: &str) -> String {
    let s = s.trim_matches('"');
    let mut out = String::new();
    let mut it = s.chars().peekable();
    while let Some(c) = it.next() {
        if c != '\\' {
            out.push(c);
            continue;
        }
        match it.next() {
            Some('n') => out.push('\n'),
            Some('t') => out.push('\t'),
            Some('r') => out.push('\r'),
            Some('0') => out.push('\0'),
            Some('\\') => out.push('\\'),
            Some('"') => out.push('"'),
            Some('\'') => out.push('\''),
            Some('u') => {
                let mut hex = String::new();
                if it.peek() == Some(&'{') {
                    it.next();
                    for h in it.by_ref() {
                        if h == '}' {
                            break;
                        }
                        hex.push(h);
                    }
                }
                if let Some(ch) = u32::from_str_radix(&hex, 16).ok().and_then(char::from_u32) {
                    out.push(ch);
                }
            }
            Some(o) => out.push(o),
            None => {}
        }
    }
    out
}
