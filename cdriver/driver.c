/* C36 — interpreter of small programs over the automerge C ABI.
 *
 * usage: driver <programs-file>
 * The file holds programs separated by lines "----"; each line of a program is
 *     <dst> <op> <args...>
 * where <dst> is the number of the result slot that receives the AMresult* (or "-").
 * Arguments: D<k> = the document in result k, O<k> = the object id of the first item of result k
 * (or "root"), S<k> = sync state in result k, M<k> = sync message in result k, B<k> = bytes in
 * result k, H<k> = the items of result k (heads) or "nil", x<hex> = a byte string, integers.
 * Every command prints one line; the Rust side computes the expected lines with the Rust API.
 * The interpreter itself never keeps a pointer into a result that the program has freed: the
 * generator only emits programs over valid handles.
 */
#include <inttypes.h>
#include <stdio.h>
#include <stdlib.h>
#include <string.h>
#include "automerge-c/automerge.h"

#define MAXR 256
static AMresult *R[MAXR];
static char line[1 << 16];

static void hex(const uint8_t *p, size_t n) {
    for (size_t i = 0; i < n; i++) printf("%02x", p[i]);
}
static void span_hex(AMbyteSpan s) { hex(s.src, s.count); }

static uint8_t *unhex(const char *s, size_t *n) {
    size_t l = strlen(s) / 2;
    uint8_t *b = malloc(l + 1);
    for (size_t i = 0; i < l; i++) {
        unsigned v;
        sscanf(s + 2 * i, "%2x", &v);
        b[i] = (uint8_t)v;
    }
    b[l] = 0;
    *n = l;
    return b;
}

static AMitem *first(int k) { return (k >= 0 && k < MAXR && R[k]) ? AMresultItem(R[k]) : NULL; }

static AMdoc *docref(const char *t) {
    AMdoc *d = NULL;
    if (t[0] == 'D') AMitemToDoc(first(atoi(t + 1)), &d);
    return d;
}
static const AMobjId *objref(const char *t) {
    if (t[0] == 'O') return AMitemObjId(first(atoi(t + 1)));
    return AM_ROOT;
}
static AMsyncState *stateref(const char *t) {
    AMsyncState *s = NULL;
    if (t[0] == 'S') AMitemToSyncState(first(atoi(t + 1)), &s);
    return s;
}
static const AMsyncMessage *msgref(const char *t) {
    const AMsyncMessage *m = NULL;
    if (t[0] == 'M') AMitemToSyncMessage(first(atoi(t + 1)), &m);
    return m;
}
static AMbyteSpan bytesref(const char *t) {
    AMbyteSpan s = {NULL, 0};
    if (t[0] == 'B') AMitemToBytes(first(atoi(t + 1)), &s);
    return s;
}

static void print_objid(const AMobjId *o) {
    if (!o) {
        printf("_root");
        return;
    }
    const AMactorId *a = AMobjIdActorId(o);
    printf("%" PRIu64 "@", AMobjIdCounter(o));
    if (a) span_hex(AMactorIdBytes(a));
}

static void print_value(const AMdoc *doc, AMitem *it) {
    AMvalType t = AMitemValType(it);
    AMbyteSpan s;
    int64_t i;
    uint64_t u;
    bool b;
    double f;
    switch (t) {
    case AM_VAL_TYPE_VOID: printf("void"); break;
    case AM_VAL_TYPE_NULL: printf("null"); break;
    case AM_VAL_TYPE_BOOL: AMitemToBool(it, &b); printf("bool:%d", b ? 1 : 0); break;
    case AM_VAL_TYPE_INT: AMitemToInt(it, &i); printf("int:%" PRId64, i); break;
    case AM_VAL_TYPE_UINT: AMitemToUint(it, &u); printf("uint:%" PRIu64, u); break;
    case AM_VAL_TYPE_COUNTER: AMitemToCounter(it, &i); printf("counter:%" PRId64, i); break;
    case AM_VAL_TYPE_TIMESTAMP: AMitemToTimestamp(it, &i); printf("ts:%" PRId64, i); break;
    case AM_VAL_TYPE_F64: AMitemToF64(it, &f); memcpy(&u, &f, 8); printf("f64:%016" PRIx64, u); break;
    case AM_VAL_TYPE_STR: AMitemToStr(it, &s); printf("str:"); span_hex(s); break;
    case AM_VAL_TYPE_BYTES: AMitemToBytes(it, &s); printf("bytes:"); span_hex(s); break;
    case AM_VAL_TYPE_CHANGE_HASH: AMitemToChangeHash(it, &s); printf("hash:"); span_hex(s); break;
    case AM_VAL_TYPE_OBJ_TYPE: {
        const AMobjId *o = AMitemObjId(it);
        AMobjType ot = doc ? AMobjObjType(doc, o) : AM_OBJ_TYPE_DEFAULT;
        printf("obj:%s:", ot == AM_OBJ_TYPE_MAP ? "map" : ot == AM_OBJ_TYPE_LIST ? "list" : ot == AM_OBJ_TYPE_TEXT ? "text" : "?");
        print_objid(o);
        break;
    }
    case AM_VAL_TYPE_ACTOR_ID: {
        const AMactorId *a = NULL;
        AMitemToActorId(it, &a);
        printf("actor:");
        if (a) span_hex(AMactorIdBytes(a));
        /* the string view of an actor id must be its hex form */
        if (a) {
            AMbyteSpan st = AMactorIdStr(a);
            printf("/");
            fwrite(st.src, 1, st.count, stdout);
        }
        break;
    }
    case AM_VAL_TYPE_DOC: printf("doc"); break;
    case AM_VAL_TYPE_CHANGE: printf("change"); break;
    case AM_VAL_TYPE_SYNC_STATE: printf("syncstate"); break;
    case AM_VAL_TYPE_SYNC_MESSAGE: printf("syncmessage"); break;
    case AM_VAL_TYPE_CURSOR: {
        const AMcursor *c = NULL;
        AMitemToCursor(it, &c);
        printf("cursor:");
        if (c) {
            AMbyteSpan st = AMcursorStr(c);
            fwrite(st.src, 1, st.count, stdout);
        }
        break;
    }
    default: printf("type%d", (int)t); break;
    }
}

static void print_idx(AMitem *it) {
    AMbyteSpan k;
    size_t p;
    switch (AMitemIdxType(it)) {
    case AM_IDX_TYPE_KEY: AMitemKey(it, &k); printf("k"); span_hex(k); break;
    case AM_IDX_TYPE_POS: AMitemPos(it, &p); printf("p%zu", p); break;
    default: printf("-"); break;
    }
}

/* status, then every item: idx=value#objid */
static void print_result(const AMdoc *doc, AMresult *r, int with_idx, int with_id) {
    if (!r) {
        printf("NULLRESULT");
        return;
    }
    if (AMresultStatus(r) != AM_STATUS_OK) {
        printf("ERR");
        return;
    }
    AMitems items = AMresultItems(r);
    size_t n = AMresultSize(r);
    printf("OK %zu", n);
    if (AMitemsSize(&items) != n) printf(" SIZE-MISMATCH(%zu)", AMitemsSize(&items));
    AMitem *it;
    size_t seen = 0;
    while ((it = AMitemsNext(&items, 1)) != NULL) {
        printf(" ");
        if (with_idx) {
            print_idx(it);
            printf("=");
        }
        print_value(doc, it);
        if (with_id && AMitemValType(it) != AM_VAL_TYPE_OBJ_TYPE && AMitemValType(it) != AM_VAL_TYPE_VOID) {
            printf("#");
            print_objid(AMitemObjId(it));
        }
        seen++;
    }
    if (seen != n) printf(" ITER-MISMATCH(%zu)", seen);
    /* the reversed / rewound views must agree on the count */
    AMitems rev = AMitemsReversed(&items);
    AMitems rw = AMitemsRewound(&rev);
    size_t back = 0;
    while (AMitemsNext(&rw, 1) != NULL) back++;
    if (back != n) printf(" REVERSED-MISMATCH(%zu)", back);
}

static void print_change(AMitem *it) {
    AMchange *c = NULL;
    if (!AMitemToChange(it, &c) || !c) {
        printf("nochange");
        return;
    }
    printf("{hash=");
    span_hex(AMchangeHash(c));
    printf(" seq=%" PRIu64 " start=%" PRIu64 " max=%" PRIu64 " time=%" PRId64 " msg=", AMchangeSeq(c), AMchangeStartOp(c), AMchangeMaxOp(c), AMchangeTime(c));
    span_hex(AMchangeMessage(c));
    printf(" size=%zu", AMchangeSize(c));
    AMresult *a = AMchangeActorId(c);
    printf(" actor=");
    print_value(NULL, AMresultItem(a));
    AMresultFree(a);
    AMresult *d = AMchangeDeps(c);
    printf(" deps=");
    print_result(NULL, d, 0, 0);
    AMresultFree(d);
    printf(" raw=");
    span_hex(AMchangeRawBytes(c));
    printf("}");
}

static void dump_obj(AMdoc *doc, const AMobjId *o, int depth) {
    AMobjType t = o ? AMobjObjType(doc, o) : AM_OBJ_TYPE_MAP;
    if (depth > 6) {
        printf("...");
        return;
    }
    if (t == AM_OBJ_TYPE_TEXT) {
        AMresult *r = AMtext(doc, o, NULL);
        AMbyteSpan s = {NULL, 0};
        AMitemToStr(AMresultItem(r), &s);
        printf("T\"");
        span_hex(s);
        printf("\"");
        AMresultFree(r);
        return;
    }
    AMresult *r = (t == AM_OBJ_TYPE_MAP) ? AMmapRange(doc, o, AMstr(NULL), AMstr(NULL), NULL) : AMlistRange(doc, o, 0, SIZE_MAX, NULL);
    printf(t == AM_OBJ_TYPE_MAP ? "{" : "[");
    if (AMresultStatus(r) != AM_STATUS_OK) printf("ERR");
    AMitems items = AMresultItems(r);
    AMitem *it;
    int n = 0;
    while ((it = AMitemsNext(&items, 1)) != NULL) {
        if (n++) printf(",");
        print_idx(it);
        printf("=");
        if (AMitemValType(it) == AM_VAL_TYPE_OBJ_TYPE) {
            dump_obj(doc, AMitemObjId(it), depth + 1);
        } else {
            print_value(doc, it);
        }
    }
    printf(t == AM_OBJ_TYPE_MAP ? "}" : "]");
    AMresultFree(r);
}

static AMobjType otype(const char *s) {
    if (!strcmp(s, "map")) return AM_OBJ_TYPE_MAP;
    if (!strcmp(s, "list")) return AM_OBJ_TYPE_LIST;
    if (!strcmp(s, "text")) return AM_OBJ_TYPE_TEXT;
    return AM_OBJ_TYPE_DEFAULT;
}

#define MAXT 16
static int run_line(char *ln, int lineno) {
    char *tok[MAXT];
    int nt = 0;
    for (char *p = strtok(ln, " \t\r\n"); p && nt < MAXT; p = strtok(NULL, " \t\r\n")) tok[nt++] = p;
    if (nt < 2) return 0;
    int dst = strcmp(tok[0], "-") ? atoi(tok[0]) : -1;
    const char *op = tok[1];
    char **a = tok + 2;
    int na = nt - 2;
    AMresult *r = NULL;
    int keep = 1;          /* store r into the slot */
    const AMdoc *pdoc = NULL;
    printf("%d %s ", lineno, op);
#define NEED(n) if (na < (n)) { printf("BADARGS\n"); return 0; }
    if (!strcmp(op, "create")) {
        NEED(1);
        size_t n;
        uint8_t *b = unhex(a[0] + 1, &n);
        AMresult *ar = AMactorIdFromBytes(b, n);
        const AMactorId *aid = NULL;
        AMitemToActorId(AMresultItem(ar), &aid);
        r = AMcreate(aid);
        AMresultFree(ar);
        free(b);
        print_result(NULL, r, 0, 0);
    } else if (!strcmp(op, "createstr")) {
        /* actor id given as a hex string through AMactorIdFromStr */
        NEED(1);
        AMresult *ar = AMactorIdFromStr(AMstr(a[0] + 1));
        const AMactorId *aid = NULL;
        AMitemToActorId(AMresultItem(ar), &aid);
        r = AMcreate(aid);
        AMresultFree(ar);
        print_result(NULL, r, 0, 0);
    } else if (!strcmp(op, "setactor")) {
        NEED(2);
        size_t n;
        uint8_t *b = unhex(a[1] + 1, &n);
        AMresult *ar = AMactorIdFromBytes(b, n);
        const AMactorId *aid = NULL;
        AMitemToActorId(AMresultItem(ar), &aid);
        r = AMsetActorId(docref(a[0]), aid);
        AMresultFree(ar);
        free(b);
        print_result(NULL, r, 0, 0);
    } else if (!strcmp(op, "getactor")) {
        NEED(1);
        r = AMgetActorId(docref(a[0]));
        print_result(NULL, r, 0, 0);
    } else if (!strcmp(op, "mput") || !strcmp(op, "lput")) {
        /* mput D O xkey type val | lput D O pos insert type val */
        int is_map = op[0] == 'm';
        NEED(is_map ? 5 : 6);
        AMdoc *d = docref(a[0]);
        const AMobjId *o = objref(a[1]);
        size_t kn = 0;
        uint8_t *kb = is_map ? unhex(a[2] + 1, &kn) : NULL;
        AMbyteSpan key = {kb, kn};
        size_t pos = is_map ? 0 : (size_t)strtoull(a[2], NULL, 10);
        bool ins = is_map ? false : atoi(a[3]) != 0;
        const char *ty = a[is_map ? 3 : 4];
        const char *v = a[is_map ? 4 : 5];
        size_t vn = 0;
        uint8_t *vb = NULL;
        if (!strcmp(ty, "int")) r = is_map ? AMmapPutInt(d, o, key, strtoll(v, NULL, 10)) : AMlistPutInt(d, o, pos, ins, strtoll(v, NULL, 10));
        else if (!strcmp(ty, "uint")) r = is_map ? AMmapPutUint(d, o, key, strtoull(v, NULL, 10)) : AMlistPutUint(d, o, pos, ins, strtoull(v, NULL, 10));
        else if (!strcmp(ty, "counter")) r = is_map ? AMmapPutCounter(d, o, key, strtoll(v, NULL, 10)) : AMlistPutCounter(d, o, pos, ins, strtoll(v, NULL, 10));
        else if (!strcmp(ty, "ts")) r = is_map ? AMmapPutTimestamp(d, o, key, strtoll(v, NULL, 10)) : AMlistPutTimestamp(d, o, pos, ins, strtoll(v, NULL, 10));
        else if (!strcmp(ty, "bool")) r = is_map ? AMmapPutBool(d, o, key, atoi(v) != 0) : AMlistPutBool(d, o, pos, ins, atoi(v) != 0);
        else if (!strcmp(ty, "null")) r = is_map ? AMmapPutNull(d, o, key) : AMlistPutNull(d, o, pos, ins);
        else if (!strcmp(ty, "f64")) {
            uint64_t bits = strtoull(v, NULL, 16);
            double f;
            memcpy(&f, &bits, 8);
            r = is_map ? AMmapPutF64(d, o, key, f) : AMlistPutF64(d, o, pos, ins, f);
        } else if (!strcmp(ty, "str")) {
            vb = unhex(v + 1, &vn);
            AMbyteSpan val = {vb, vn};
            r = is_map ? AMmapPutStr(d, o, key, val) : AMlistPutStr(d, o, pos, ins, val);
        } else if (!strcmp(ty, "bytes")) {
            vb = unhex(v + 1, &vn);
            AMbyteSpan val = {vb, vn};
            r = is_map ? AMmapPutBytes(d, o, key, val) : AMlistPutBytes(d, o, pos, ins, val);
        } else if (!strcmp(ty, "obj")) {
            r = is_map ? AMmapPutObject(d, o, key, otype(v)) : AMlistPutObject(d, o, pos, ins, otype(v));
        }
        free(kb);
        free(vb);
        pdoc = d;
        print_result(pdoc, r, 1, 0);
    } else if (!strcmp(op, "mdel")) {
        NEED(3);
        size_t kn;
        uint8_t *kb = unhex(a[2] + 1, &kn);
        AMbyteSpan key = {kb, kn};
        r = AMmapDelete(docref(a[0]), objref(a[1]), key);
        free(kb);
        print_result(NULL, r, 0, 0);
    } else if (!strcmp(op, "ldel")) {
        NEED(3);
        r = AMlistDelete(docref(a[0]), objref(a[1]), (size_t)strtoull(a[2], NULL, 10));
        print_result(NULL, r, 0, 0);
    } else if (!strcmp(op, "minc")) {
        NEED(4);
        size_t kn;
        uint8_t *kb = unhex(a[2] + 1, &kn);
        AMbyteSpan key = {kb, kn};
        r = AMmapIncrement(docref(a[0]), objref(a[1]), key, strtoll(a[3], NULL, 10));
        free(kb);
        print_result(NULL, r, 0, 0);
    } else if (!strcmp(op, "linc")) {
        NEED(4);
        r = AMlistIncrement(docref(a[0]), objref(a[1]), (size_t)strtoull(a[2], NULL, 10), strtoll(a[3], NULL, 10));
        print_result(NULL, r, 0, 0);
    } else if (!strcmp(op, "tsplice")) {
        NEED(5);
        size_t tn;
        uint8_t *tb = unhex(a[4] + 1, &tn);
        AMbyteSpan text = {tb, tn};
        r = AMspliceText(docref(a[0]), objref(a[1]), (size_t)strtoull(a[2], NULL, 10), (ptrdiff_t)strtoll(a[3], NULL, 10), text);
        free(tb);
        print_result(NULL, r, 0, 0);
    } else if (!strcmp(op, "commit") || !strcmp(op, "empty")) {
        NEED(3);
        size_t mn;
        uint8_t *mb = unhex(a[1] + 1, &mn);
        AMbyteSpan msg = {mb, mn};
        int64_t t = strtoll(a[2], NULL, 10);
        r = op[0] == 'c' ? AMcommit(docref(a[0]), msg, &t) : AMemptyChange(docref(a[0]), msg, &t);
        free(mb);
        print_result(NULL, r, 0, 0);
    } else if (!strcmp(op, "rollback")) {
        NEED(1);
        printf("%zu", AMrollback(docref(a[0])));
        keep = 0;
    } else if (!strcmp(op, "pending")) {
        NEED(1);
        printf("%zu", AMpendingOps(docref(a[0])));
        keep = 0;
    } else if (!strcmp(op, "save") || !strcmp(op, "saveinc")) {
        NEED(1);
        r = op[4] ? AMsaveIncremental(docref(a[0])) : AMsave(docref(a[0]));
        print_result(NULL, r, 0, 0);
    } else if (!strcmp(op, "load")) {
        NEED(1);
        AMbyteSpan b = bytesref(a[0]);
        r = AMload(b.src, b.count);
        print_result(NULL, r, 0, 0);
    } else if (!strcmp(op, "loadinc")) {
        NEED(2);
        AMbyteSpan b = bytesref(a[1]);
        r = AMloadIncremental(docref(a[0]), b.src, b.count);
        print_result(NULL, r, 0, 0);
    } else if (!strcmp(op, "fork")) {
        NEED(1);
        r = AMfork(docref(a[0]), NULL);
        print_result(NULL, r, 0, 0);
    } else if (!strcmp(op, "forkat")) {
        NEED(2);
        AMitems h = AMresultItems(R[atoi(a[1] + 1)]);
        r = AMfork(docref(a[0]), &h);
        print_result(NULL, r, 0, 0);
    } else if (!strcmp(op, "clone")) {
        NEED(1);
        r = AMclone(docref(a[0]));
        print_result(NULL, r, 0, 0);
    } else if (!strcmp(op, "merge")) {
        NEED(2);
        r = AMmerge(docref(a[0]), docref(a[1]));
        print_result(NULL, r, 0, 0);
    } else if (!strcmp(op, "equal")) {
        NEED(2);
        printf("%d", AMequal(docref(a[0]), docref(a[1])) ? 1 : 0);
        keep = 0;
    } else if (!strcmp(op, "heads")) {
        NEED(1);
        r = AMgetHeads(docref(a[0]));
        print_result(NULL, r, 0, 0);
    } else if (!strcmp(op, "missing")) {
        NEED(1);
        r = AMgetMissingDeps(docref(a[0]), NULL);
        print_result(NULL, r, 0, 0);
    } else if (!strcmp(op, "changes") || !strcmp(op, "lastlocal")) {
        NEED(1);
        r = op[0] == 'c' ? AMgetChanges(docref(a[0]), NULL) : AMgetLastLocalChange(docref(a[0]));
        if (AMresultStatus(r) != AM_STATUS_OK) printf("ERR");
        else {
            printf("OK %zu", AMresultSize(r));
            AMitems items = AMresultItems(r);
            AMitem *it;
            while ((it = AMitemsNext(&items, 1)) != NULL) {
                printf(" ");
                if (AMitemValType(it) == AM_VAL_TYPE_VOID) printf("void");
                else print_change(it);
            }
        }
    } else if (!strcmp(op, "applychanges")) {
        /* applychanges Ddst Rk : the change items of result k */
        NEED(2);
        AMitems items = AMresultItems(R[atoi(a[1] + 1)]);
        r = AMapplyChanges(docref(a[0]), &items);
        print_result(NULL, r, 0, 0);
    } else if (!strcmp(op, "changefrombytes")) {
        /* re-parse the raw bytes of the first change in result k */
        NEED(1);
        AMchange *c = NULL;
        AMitemToChange(first(atoi(a[0] + 1)), &c);
        AMbyteSpan raw = c ? AMchangeRawBytes(c) : (AMbyteSpan){NULL, 0};
        r = AMchangeFromBytes(raw.src, raw.count);
        if (AMresultStatus(r) != AM_STATUS_OK) printf("ERR");
        else {
            printf("OK %zu ", AMresultSize(r));
            print_change(AMresultItem(r));
        }
    } else if (!strcmp(op, "mget") || !strcmp(op, "mgetall")) {
        NEED(3);
        size_t kn;
        uint8_t *kb = unhex(a[2] + 1, &kn);
        AMbyteSpan key = {kb, kn};
        AMdoc *d = docref(a[0]);
        r = op[4] ? AMmapGetAll(d, objref(a[1]), key, NULL) : AMmapGet(d, objref(a[1]), key, NULL);
        free(kb);
        print_result(d, r, op[4] ? 0 : 1, 1);
    } else if (!strcmp(op, "lget") || !strcmp(op, "lgetall")) {
        NEED(3);
        AMdoc *d = docref(a[0]);
        size_t pos = (size_t)strtoull(a[2], NULL, 10);
        r = op[4] ? AMlistGetAll(d, objref(a[1]), pos, NULL) : AMlistGet(d, objref(a[1]), pos, NULL);
        print_result(d, r, op[4] ? 0 : 1, 1);
    } else if (!strcmp(op, "keys")) {
        NEED(2);
        r = AMkeys(docref(a[0]), objref(a[1]), NULL);
        print_result(NULL, r, 0, 0);
    } else if (!strcmp(op, "size")) {
        NEED(2);
        printf("%zu", AMobjSize(docref(a[0]), objref(a[1]), NULL));
        keep = 0;
    } else if (!strcmp(op, "otype")) {
        NEED(2);
        printf("%d", (int)AMobjObjType(docref(a[0]), objref(a[1])));
        keep = 0;
    } else if (!strcmp(op, "text")) {
        NEED(2);
        r = AMtext(docref(a[0]), objref(a[1]), NULL);
        print_result(NULL, r, 0, 0);
    } else if (!strcmp(op, "items")) {
        NEED(2);
        AMdoc *d = docref(a[0]);
        r = AMobjItems(d, objref(a[1]), NULL);
        print_result(d, r, 0, 1);
    } else if (!strcmp(op, "mrange")) {
        NEED(2);
        AMdoc *d = docref(a[0]);
        r = AMmapRange(d, objref(a[1]), AMstr(NULL), AMstr(NULL), NULL);
        print_result(d, r, 1, 1);
    } else if (!strcmp(op, "lrange")) {
        NEED(4);
        AMdoc *d = docref(a[0]);
        r = AMlistRange(d, objref(a[1]), (size_t)strtoull(a[2], NULL, 10), (size_t)strtoull(a[3], NULL, 10), NULL);
        print_result(d, r, 1, 1);
    } else if (!strcmp(op, "cursor")) {
        NEED(3);
        r = AMgetCursor(docref(a[0]), objref(a[1]), (size_t)strtoull(a[2], NULL, 10), NULL);
        print_result(NULL, r, 0, 0);
    } else if (!strcmp(op, "cursorpos")) {
        /* cursorpos D O Ck */
        NEED(3);
        const AMcursor *c = NULL;
        AMitemToCursor(first(atoi(a[2] + 1)), &c);
        r = AMgetCursorPosition(docref(a[0]), objref(a[1]), c, NULL);
        print_result(NULL, r, 0, 0);
    } else if (!strcmp(op, "syncinit")) {
        r = AMsyncStateInit();
        print_result(NULL, r, 0, 0);
    } else if (!strcmp(op, "gen")) {
        NEED(2);
        r = AMgenerateSyncMessage(docref(a[0]), stateref(a[1]));
        print_result(NULL, r, 0, 0);
    } else if (!strcmp(op, "enc")) {
        NEED(1);
        const AMsyncMessage *m = msgref(a[0]);
        r = AMsyncMessageEncode(m);
        print_result(NULL, r, 0, 0);
    } else if (!strcmp(op, "dec")) {
        NEED(1);
        AMbyteSpan b = bytesref(a[0]);
        r = AMsyncMessageDecode(b.src, b.count);
        print_result(NULL, r, 0, 0);
    } else if (!strcmp(op, "recv")) {
        NEED(3);
        r = AMreceiveSyncMessage(docref(a[0]), stateref(a[1]), msgref(a[2]));
        print_result(NULL, r, 0, 0);
    } else if (!strcmp(op, "stateenc")) {
        NEED(1);
        r = AMsyncStateEncode(stateref(a[0]));
        print_result(NULL, r, 0, 0);
    } else if (!strcmp(op, "statedec")) {
        NEED(1);
        AMbyteSpan b = bytesref(a[0]);
        r = AMsyncStateDecode(b.src, b.count);
        print_result(NULL, r, 0, 0);
    } else if (!strcmp(op, "dump")) {
        NEED(1);
        dump_obj(docref(a[0]), AM_ROOT, 0);
        keep = 0;
    } else if (!strcmp(op, "cat")) {
        /* cat Rk Rj: concatenation of two results' items */
        NEED(2);
        r = AMresultCat(R[atoi(a[0] + 1)], R[atoi(a[1] + 1)]);
        print_result(NULL, r, 0, 0);
    } else if (!strcmp(op, "free")) {
        NEED(1);
        int k = atoi(a[0] + 1);
        if (k >= 0 && k < MAXR && R[k]) {
            AMresultFree(R[k]);
            R[k] = NULL;
        }
        printf("ok");
        keep = 0;
    } else {
        printf("UNKNOWN-OP");
        keep = 0;
    }
    printf("\n");
    if (keep) {
        if (dst >= 0 && dst < MAXR) {
            if (R[dst]) AMresultFree(R[dst]);
            R[dst] = r;
        } else if (r) {
            AMresultFree(r);
        }
    }
    return 0;
}

int main(int argc, char **argv) {
    if (argc < 2) {
        fprintf(stderr, "usage: driver <programs>\n");
        return 2;
    }
    FILE *f = fopen(argv[1], "r");
    if (!f) {
        perror("open");
        return 2;
    }
    int lineno = 0, prog = 0;
    printf("== %d\n", prog);
    while (fgets(line, sizeof line, f)) {
        if (!strncmp(line, "----", 4)) {
            /* end of program: anything the program left alive is released here */
            for (int i = 0; i < MAXR; i++)
                if (R[i]) {
                    AMresultFree(R[i]);
                    R[i] = NULL;
                }
            prog++;
            lineno = 0;
            printf("== %d\n", prog);
            continue;
        }
        run_line(line, lineno++);
    }
    for (int i = 0; i < MAXR; i++)
        if (R[i]) AMresultFree(R[i]);
    fclose(f);
    return 0;
}
