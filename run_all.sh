#!/bin/bash
# usage: ./run_all.sh [quick|thorough] [ids...]  -- runs every claimed check, prints one line each
TIER="${1:-quick}"; shift
cd "$(dirname "$0")"
IDS="$@"
if [ -z "$IDS" ]; then IDS=$(python3 -c "import json;print(' '.join(c['property_id'] for c in json.load(open('MANIFEST.json'))['checks']))"); fi
for id in $IDS; do
  s=$(date +%s)
  out=$(./check $id $TIER 2>&1); rc=$?
  e=$(date +%s)
  echo "$id rc=$rc $((e-s))s :: $(echo "$out" | grep -c '^VIOLATION') violations, $(echo "$out" | grep -c '^KNOWN-FINDING') known :: $(echo "$out" | grep "^$id $TIER" | cut -c1-160)"
  if [ $rc -ne 0 ]; then echo "$out" | grep "^VIOLATION\|MACHINERY" | cut -c1-300; fi
done
