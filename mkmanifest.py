#!/usr/bin/env python3
"""Generates MANIFEST.json from the table below (kept in one place so it stays valid)."""
import json, sys

ALL = ["C%02d" % i for i in range(1, 41)]

# id -> (category, technique, level text, level note, design ref, engine)
CHECKS = {
 "C02": ("model_checking",
         "explicit-state BFS over real replicas vs independent op-set interpreter",
         "Exhaustive BFS over all histories of 2-3 real Automerge replicas within the stated edit/merge budgets (5 themes x 3 base documents); in every reachable state the public-read observation of every replica and every pairwise merge must equal an independent op-based CRDT interpreter fed only by Change::decode. Every execution is the implementation itself, so there is no model-conformance gap.",
         "Trusted: Change::decode exposes the ops of a change faithfully (cross-checked by C10/C18); the ~400-line reference interpreter; bounds: <=3 replicas, <=3 edits per replica, themes explored separately.",
         "DESIGN.md §4 C02", "mc-history"),
}

NOT_YET = "check not built yet in this round (planned: see DESIGN.md §4); not claimed"

def main():
    checks = []
    for pid in ALL:
        if pid not in CHECKS:
            continue
        cat, tech, text, note, ref, engine = CHECKS[pid]
        checks.append({
            "property_id": pid,
            "quick_cmd": "./check %s quick" % pid,
            "thorough_cmd": "./check %s thorough" % pid,
            "evidence_file": "/verif/evidence/%s.json" % pid,
            "replay_cmd_template": "./check --replay {path}",
            "engine": engine,
            "level_claimed": {"category": cat, "text": text, "design_ref": ref},
            "level_note": note,
            "technique": tech,
        })
    na = [{"property_id": p, "reason": NOT_YET} for p in ALL if p not in CHECKS]
    hooks = json.load(open("hooks.json"))
    m = {
        "version": 1,
        "setup_cmd": "cd /verif && ./setup.sh",
        "hooks": hooks,
        "engines": [
            {"name": "mc-history", "path": "/verif/amc/src/explore.rs", "serves_properties": [p for p in ALL if p in CHECKS and CHECKS[p][5] == "mc-history"],
             "kind_free_text": "level-synchronous parallel BFS over worlds of real Automerge replicas; canonical key = heads+actor+budgets; confluence check on key merges; per-state and per-transition oracles"},
        ],
        "checks": checks,
        "not_applicable": na,
        "notes": "All checks are bounded-exhaustive explorations of the real implementation (no substitute model). Known findings: /verif/KNOWN_FINDINGS.txt. Seeded mutants: /verif/seeded/.",
    }
    json.dump(m, open("MANIFEST.json", "w"), indent=1)
    print("wrote MANIFEST.json with %d checks, %d not_applicable" % (len(checks), len(na)))

main()
