#!/usr/bin/env python3
"""Generates MANIFEST.json from the table below (kept in one place so it stays valid)."""
import json, sys

ALL = ["C%02d" % i for i in range(1, 41)]

# id -> (category, technique, level text, level note, design ref, engine)
H = "mc-history"
CHECKS = {
 "C01": ("model_checking", "explicit-state BFS over real replicas + exhaustive delivery permutations, confluence on op-column bytes",
         "Exhaustive BFS over histories of 2-3 real replicas within edit/merge budgets; in every state both directions of every pairwise merge agree in reads and op-column bytes, and for every distinct change set reached every permutation x {one-at-a-time, redelivery, batch, batch with duplicate, every 2-block split, load_incremental} plus merge/load/save_after/bundle/sync ingestion must produce the same document (reads + op columns). States reached by different paths with equal heads are compared on reads and op columns (confluence).",
         "Bounds: <=3 replicas, <=3 edits each, permutations complete up to 4 (quick) / 6 (thorough) new changes. Trusted: harness chunk parser that cuts the op-column section out of save_nocompress().",
         "DESIGN.md §4 C01", H),
 "C02": ("model_checking", "explicit-state BFS over real replicas vs independent op-set interpreter",
         "Exhaustive BFS over all histories of 2-3 real Automerge replicas within the stated edit/merge budgets (5 themes x 3 base documents); in every reachable state the public-read observation of every replica and every pairwise merge must equal an independent op-based CRDT interpreter fed only by Change::decode. Every execution is the implementation itself, so there is no model-conformance gap.",
         "Trusted: Change::decode exposes the ops of a change faithfully (cross-checked by C10/C18); the ~400-line reference interpreter; bounds: <=3 replicas, <=3 edits per replica, themes explored separately.",
         "DESIGN.md §4 C02", H),
 "C07": ("model_checking", "explicit-state BFS; every consistent cut of every reached history; *_at reads vs fork_at differential + reference interpreter",
         "For every distinct document the history explorer reaches and every causally closed head set (all consistent cuts above the base, plus cuts through the base, plus a 40-change chain crossing the clock-cache step): fork_at(H) has heads H, holds exactly ancestors(H), equals the reference interpreter on them, and every *_at(H) read equals the plain read on the fork.",
         "Head sets are derived by the harness from Change::deps(); capped per document (16 quick / 64 thorough).",
         "DESIGN.md §4 C07", H),
 "C08": ("model_checking", "explicit-state BFS; all ordered pairs of consistent cuts; independent patch applier on a materialised view",
         "For every distinct document reached (replicas and merges) and ALL ordered pairs of head sets (consistent cuts above the base, empty, current): view(H1) patched with diff(H1,H2) by the harness's own applier equals view(H2) (winners, conflict flags, counters, text units, per-unit marks); AutoCommit::diff incl. its cache; diff_obj recursive and non-recursive for every object in both directions.",
         "Head-set cap per document 5 (quick) / 12 (thorough). Marks on embedded-object placeholders are not compared (Insert patches carry none).",
         "DESIGN.md §4 C08", H),
 "C09": ("model_checking", "explicit-state BFS over AutoCommit replicas each owning a view kept by diff_incremental; edge oracle re-running every transition through the *_log_patches APIs",
         "(A) every transition of the history explorer redone through transaction_log_patches, merge_and_log_patches, apply_changes_log_patches (one change at a time, reverse order), load_incremental_log_patches and receive_sync_message_log_patches, plus load_with_options{patch_log} and current_state onto the empty view; (B) all programs within budgets over AutoCommit replicas with an armed diff cursor: edit, two-op transactions, edit+rollback, merge, load_incremental, sync, isolate, integrate; after each action the patches must turn the previous view into the view read from the document. One known finding (isolated put on marked text).",
         "Budgets: edits [2,1], one other action (quick); [2,2], two others (thorough).",
         "DESIGN.md §4 C09", H),
 "C10": ("model_checking", "explicit-state BFS; per-document exhaustive have-set enumeration; harness SHA-256 over chunk grammar",
         "For every distinct document reached: every retrieval API returns changes that are single change chunks whose harness-computed SHA-256 is their hash, byte-identical to the first-seen bytes of that hash in any replica; get_changes(have) for every consistent cut and every pair of hashes equals all minus ancestors(have), dependency ordered; stable across fork and save/load.",
         "SHA-256 collision resistance; ancestors computed by the harness.",
         "DESIGN.md §4 C10", H),
 "C11": ("model_checking", "explicit-state BFS; save/load differential over all option combinations and encodings",
         "Every distinct document reached (replicas, merges, documents holding queued orphans, B3 with DEFLATEd columns, 4 text encodings) x {deflate} x {retain_orphans}: load(save) equal in reads, change bytes, historical reads at every consistent cut, pending queue; save(load(save)) byte-identical.",
         "Encoding is supplied to the loader (not stored in the file).",
         "DESIGN.md §4 C11", H),
 "C12": ("model_checking", "explicit-state BFS over writer/peer/save actions; every load order of the pieces",
         "All programs within budgets over {edit (uncommitted), peer edit, merge, save, save_incremental, save_after(h)}; in every state each save + everything after it loads to the writer's document, a copy of the writer at piece k fed the later pieces in every order equals it, and re-feeding is a no-op.",
         "Budgets: edits<=2(3), peer edits<=1, pieces<=3(4).",
         "DESIGN.md §4 C12", "mc-storage"),
 "C13": ("fault_enumeration", "exhaustive crash-point enumeration (every byte offset) over files produced by the C12 explorer",
         "Every byte offset of every distinct save+incremental file the explorer produces (thousands of files): strict load iff chunk boundary; partial load equals the document of the complete chunks; never a panic.",
         "Chunk boundaries from the harness's own grammar; expected document built chunk by chunk.",
         "DESIGN.md §4 C13", "mc-storage"),
 "C14": ("fault_enumeration", "exhaustive single-bit-flip (and byte-overwrite) enumeration over saved outputs",
         "Every single-bit flip (thorough: every byte value) of save files, incremental files, raw and DEFLATEd change bytes and a bundle must make load fail; violations are classified by flip site and identical/different document. One known finding (DEFLATE padding bits, identical document).",
         "32-bit checksum collisions would be deterministic, not flaky.",
         "DESIGN.md §4 C14", "mc-storage"),
 "C18": ("model_checking", "explicit-state BFS + exhaustive subset enumeration for bundles + enumerated hand-built expanded changes",
         "Every change of every document reached round-trips through raw bytes, compressed bytes and decode/encode with the same hash; every subset (<=5) of new changes bundles to byte-identical changes and loads like apply_changes; ~2.2k hand-built expanded changes (actions x scalar extremes x key/pred shapes) encode/decode/reload.",
         "Hand-built changes stay inside documented ranges.",
         "DESIGN.md §4 C18", H),
 "C24": ("model_checking", "explicit-state BFS per text encoding; reference interpreter with independent width functions; unit-indexed view explorer",
         "For each of the 4 encodings: all histories within budgets over a multi-unit alphabet; every distinct document agrees with the reference on text, length, element starts and per-unit marks; length == width(text), concat(spans) == text, marks() element-aligned, get(i) for every unit returns the covering element, cursors from every unit resolve to the element start; patches land on element boundaries of a unit-indexed view.",
         "Alphabet has no lone combining marks (element-wise and whole-string grapheme counts coincide).",
         "DESIGN.md §4 C24", H),
 "C25": ("model_checking", "explicit-state BFS; Peritext reference from decoded ops; per-transition boundary-rule oracle",
         "All histories within budgets over the marks/text themes: marks(), get_marks(i) for every unit, spans(), after reload and at every consistent cut (walked vs indexed via fork_at) equal the Peritext reference; every insert-only splice is checked against the expand rule derived from anchor positions.",
         "Boundary rule asserted at boundaries with at most one mark anchor and for marks with visible extent.",
         "DESIGN.md §4 C25", H),
 "C26": ("model_checking", "explicit-state BFS; cursors from every index at every consistent cut resolved at every later cut vs reference RGA interpreter",
         "For every distinct document reached, every cut H, every sequence object, every index and both move modes: creation identity, and resolution at every later cut S (walked) and at current heads (indexed) equals the reference: element index while visible; After = visible units before it; Before = nearest visible ancestor on the insertion chain or 0; string/byte forms resolve identically.",
         "Cuts capped per document (8 quick / 24 thorough).",
         "DESIGN.md §4 C26", H),
 "C28": ("model_checking", "explicit-state BFS for start states x exhaustive transaction sequences, byte-level differential oracle",
         "Every distinct replica document reached x every sequence of <=2 (quick) / <=3 (thorough) alphabet calls (plus a rejected call) rolled back through Transaction::rollback, transact(Err) and AutoCommit::rollback: reads, heads and save_nocompress bytes identical; the same later edit yields byte-identical change bytes.",
         "Sequences stop at the first call not enabled.",
         "DESIGN.md §4 C28", H),
 "C32": ("model_checking", "explicit-state BFS; export vs winners projection; length-contract-enforcing serializer",
         "Every distinct document reached is exported with serde_json and with a harness Serializer that fails if a container writes a different number of entries than announced; both equal the winners-only projection built from keys/length/get_all/text.",
         "Projection uses get_all(last) not get().",
         "DESIGN.md §4 C32", H),
 "C40": ("model_checking", "explicit-state BFS; migrating load vs slot-by-slot walk + reference interpreter for the no-op case",
         "Every distinct document reached (strings in maps, lists, nested objects, conflicts, tombstones) is saved and loaded with ConvertToText; slot-by-slot: slots with visible strings hold exactly one text with the highest-id string, all other slots unchanged with the same ids, no visible string remains, heads unchanged when the reference finds no visible string anywhere.",
         "No claim about unreachable objects; Table outside the alphabet.",
         "DESIGN.md §4 C40", H),
 "C03": ("model_checking", "explicit-state BFS for start states x exhaustive call menu vs sequential specification on an id-free projection",
         "Every distinct replica document reached (4 encodings for text themes) x every call of the whole alphabet: the spec's predicted projection (conflict lists, counters, elements, per-element marks) equals what the open transaction shows and what the document shows after commit, on Automerge transactions and AutoCommit; invalid calls return Err.",
         "Marks of freshly inserted text are left to C25; mid-character indexes only get no-panic.",
         "DESIGN.md §4 C03", H),
 "C04": ("model_checking", "explicit-state BFS over real AutoCommit replicas with a replica-level alphabet; per-transition metadata oracle",
         "All programs up to the depth bound over {edit+commit, empty commit, merge, fork, set_actor, isolate(H) for every consistent cut, integrate, save+load} on 2-3 replicas; every created change is checked for seq, start_op and deps against the harness's own bookkeeping; heads = maximal changes in every state.",
         "Depth 6/5 (quick), 8/7 (thorough). empty_change is only driven outside isolation (documented to use all current heads).",
         "DESIGN.md §4 C04", "mc-replicas"),
 "C05": ("model_checking", "explicit-state BFS for DAG shapes + exhaustive permutations and prefixes of deliveries through three ingestion paths",
         "For every distinct change set the explorer reaches (<=4 quick / <=6 thorough new changes over 2-3 actors with merges): every permutation, delivered one at a time via apply_changes, load_incremental and a sync message; after every prefix the visible state, applied set and get_missing_deps (for [] and every single hash incl. an unknown one) equal the harness's closure computation.",
         "Closure and readiness computed by the harness from Change::deps().",
         "DESIGN.md §4 C05", H),
 "C06": ("model_checking", "explicit-state BFS over shared-actor replicas + exhaustive single-bit/truncation fault menu + rejected-call menu",
         "Every delivery/merge that returns Err in the shared-actor worlds, every single-bit corruption and truncation of incremental data, and a menu of rejected transaction calls must leave reads, pending queue (retained-orphan bytes, missing deps), pending ops and later behaviour unchanged. One known finding (queue pruned on DuplicateSeqNumber, pinned by the repo's own test) is listed in KNOWN_FINDINGS.txt.",
         "Snapshot = public reads + save_with_options{retain_orphans} bytes + get_missing_deps.",
         "DESIGN.md §4 C06", "mc-replicas"),
 "C38": ("model_checking", "explicit-state BFS over three replicas two of which share an actor id; all delivery orders and paths",
         "All programs up to depth 6 (quick) / 7 (thorough): local commits on both holders of the shared actor, every delivery of every change to every replica via apply_changes / load_incremental / sync message / reversed batches / merge, save+load; in every state (actor,seq) pairs are unique among applied and queued changes and load(save) round-trips; a local commit purges conflicting queued branches.",
         "Queue read back by parsing retained-orphan chunks.",
         "DESIGN.md §4 C38", "mc-replicas"),
 "C20": ("model_checking", "explicit-state BFS of the real sync protocol (2 peers, encoded channels), fault-injected Bloom false positives, fair-completion convergence oracle in every state",
         "All interleavings of generate / deliver / local edit / injected Bloom false positive for two real peers from six start worlds, frontier run to exhaustion under edit and fault budgets; from every reachable state a fair completion must go quiet within 10 rounds with equal heads and reads, and stay quiet.",
         "Hook: thread-local false-positive plan in BloomFilter::contains_hash (only false->true, non-empty filters). Budgets: 1 edit/peer + 1 false positive (quick), 2+2 (thorough).",
         "DESIGN.md §4 C20", "mc-sync"),
 "C21": ("model_checking", "explicit-state BFS of the real sync protocol (2-3 peers) with link drops, message loss, fresh/persisted state, cuts, snapshot restore",
         "All interleavings for three peers (line; triangle in thorough) and two peers with two drops: drop = in-flight loss + reconnect with State::new() or decode(encode(state)); cut = link removed; restore = older document snapshot; from every reachable state fair completion leaves every connected component with equal heads and nobody waiting.",
         "Budgets: drops<=2, cuts<=1, restore<=1, edits<=1/peer; triangle only in the thorough tier (capped, reported).",
         "DESIGN.md §4 C21", "mc-sync"),
 "C22": ("model_checking", "explicit-state BFS of the real sync protocol with read-only toggles; byte-level edge oracle",
         "All interleavings of generate / deliver / edit / set_read_only toggles on either side; every delivery to a read-only state must leave save() bytes unchanged; fair completion gives linked writable peers all changes of the read-only peer; after switching back, completion ends with equal heads.",
         "Budgets: toggles<=1 (quick) / 2 (thorough), edits<=1 per peer.",
         "DESIGN.md §4 C22", "mc-sync"),
}

NOT_YET = "check not built yet in this round (planned: see DESIGN.md §4); not claimed"

def main():
    checks = []
    for pid in ALL:
        if pid not in CHECKS:
            continue
        cat, tech, text, note, ref, engine = CHECKS[pid]
        checks.append({
            "property_id": pid,
            "quick_cmd": "./check %s quick" % pid,
            "thorough_cmd": "./check %s thorough" % pid,
            "evidence_file": "/verif/evidence/%s.json" % pid,
            "replay_cmd_template": "./check --replay {path}",
            "engine": engine,
            "level_claimed": {"category": cat, "text": text, "design_ref": ref},
            "level_note": note,
            "technique": tech,
        })
    na = [{"property_id": p, "reason": NOT_YET} for p in ALL if p not in CHECKS]
    hooks = json.load(open("hooks.json"))
    m = {
        "version": 1,
        "setup_cmd": "cd /verif && ./setup.sh",
        "hooks": hooks,
        "engines": [
            {"name": "mc-history", "path": "/verif/amc/src/explore.rs", "serves_properties": [p for p in ALL if p in CHECKS and CHECKS[p][5] == "mc-history"],
             "kind_free_text": "level-synchronous parallel BFS over worlds of real Automerge replicas; canonical key = heads+actor+budgets; confluence check on key merges; per-state and per-transition oracles"},
            {"name": "mc-replicas", "path": "/verif/amc/src/props/c04.rs, /verif/amc/src/props/c38.rs", "serves_properties": [p for p in ALL if p in CHECKS and CHECKS[p][5] == "mc-replicas"],
             "kind_free_text": "explicit-state BFS over replica-level actions (commit, merge, fork, set_actor, isolate, deliver, save/load)"},
            {"name": "mc-storage", "path": "/verif/amc/src/props/c12.rs, /verif/amc/src/props/c13.rs", "serves_properties": [p for p in ALL if p in CHECKS and CHECKS[p][5] == "mc-storage"],
             "kind_free_text": "writer/peer/save explorer producing files; exhaustive cut-point and bit-flip enumeration over them"},
            {"name": "mc-sync", "path": "/verif/amc/src/syncmc.rs", "serves_properties": [p for p in ALL if p in CHECKS and CHECKS[p][5] == "mc-sync"],
             "kind_free_text": "explicit-state BFS over n real peers, per-link sync::State, FIFO channels of encoded messages, fault budgets (false positives, drops, cuts, restores, read-only toggles); fair-completion oracle from every state"},
        ],
        "checks": checks,
        "not_applicable": na,
        "notes": "All checks are bounded-exhaustive explorations of the real implementation (no substitute model). Known findings: /verif/KNOWN_FINDINGS.txt. Seeded mutants: /verif/seeded/.",
    }
    json.dump(m, open("MANIFEST.json", "w"), indent=1)
    print("wrote MANIFEST.json with %d checks, %d not_applicable" % (len(checks), len(na)))

main()
