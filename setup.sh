#!/bin/bash
# Builds the harness offline from files on disk only.
set -e
cd "$(dirname "$0")/amc"
export CARGO_NET_OFFLINE=true
mkdir -p ../target ../evidence
cargo build --offline --bin amc --bin amcw
