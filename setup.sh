#!/bin/bash
# Builds the harness (and the artefacts of /repo that checks drive) offline from files on disk only.
set -e
ROOT="$(cd "$(dirname "$0")" && pwd)"
export CARGO_NET_OFFLINE=true
mkdir -p "$ROOT/target" "$ROOT/evidence"
# the harness binaries
"$ROOT/check" --build C01
# the CLI binary driven by C33, the C library + header + interpreter driven by C36
# (all built from /repo's tree into /verif/target/repo)
"$ROOT/check" --build C33
"$ROOT/check" --build C36
